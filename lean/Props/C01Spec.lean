import Props.C01
import Proofs.C01Spec
/-!
# C01, de-monitored — acceptance by `monC01C02` means "contiguous runs, strictly increasing"

`Props.C01` states C01 through the executable monitor `monC01C02`.  Here the monitor is taken out of the
trusted reading:

* `recordings tr` (`Proofs.C01Spec`) cuts the motion-sink calls of ANY observed trace into recordings — a
  plain fold: a successful `StartRecording` opens a recording, every `WriteFrame` appends its id to the open
  one, `StopRecording` closes it;
* `monC01C02_sound`: for every trace (the model's or one recorded from the real code) that the monitor
  accepts and in which no motion-sink write was made to fail, every recording is `[a, a+1, …]` and the
  concatenation of all recordings is strictly increasing;
* `c01_recordings`: hence the model's recordings have that shape, for every configuration with `K ≥ 1`,
  every event list and every fault placement except failing motion-sink writes; all recorded ids are ids of
  accepted frames;
* `pipe_c01`: the motion files of the unthrottled composed pipeline (`TR.Pipeline`) ARE the recordings of the
  processor trace it induces, so they inherit the specification.

The bound "every recorded id is below the number of frame events" does NOT follow from monitor acceptance
on arbitrary traces (the monitor bounds only the first id of a recording; see the counterexample below);
it is proved for the model (`c01_recordings`) and for the pipeline (`pipe_c01`).
-/
namespace TR.C01Spec
open TR

/-! ## generic: any trace -/

/-- **Soundness of the C01/C02 monitor** (restated from `Proofs.C01Spec`). -/
theorem monitor_sound (K : Nat) (tr : List Step)
    (hacc : monC01C02 K tr = []) (hnf : ∀ st ∈ tr, st.motionWriteFault = false) :
    (∀ r ∈ recordings tr, ∃ a, r = List.range' a r.length) ∧
    (recordings tr).flatten.Pairwise (· < ·) :=
  monC01C02_sound K tr hacc hnf

/-- only ids that were written to the motion sink are recorded (any trace, no hypothesis) -/
theorem recorded_ids_were_written (tr : List Step) :
    ∀ id ∈ (recordings tr).flatten, ∃ st ∈ tr, ∃ ok, Obs.call .motion (.write id) ok ∈ st.obs :=
  recordings_ids_written tr

/-- `monC01C02_ids_lt` as first proposed ("an accepted trace records only ids below its number of frame
events") is FALSE: the monitor checks the first id of a recording against the current frame index, later
writes only for contiguity — one frame event may carry a start and the writes 0, 1.  Neither the C12
protocol monitor nor `K ≥ 1` helps. -/
example :
    let tr : List Step := [⟨.frame true {}, [.call .motion .start true, .call .motion (.write 0) true,
      .call .motion (.write 1) true]⟩]
    monC01C02 1 tr = [] ∧ monC12 tr = [] ∧ (∀ st ∈ tr, st.motionWriteFault = false) ∧
    recordings tr = [[0, 1]] ∧ (tr.filter (·.ev.isFrame)).length = 1 := by decide

/-- … and writes during an event that is not a frame are not excluded by the monitor either -/
example :
    let tr : List Step := [⟨.bad {}, [.call .motion .start true, .call .motion (.write 0) true]⟩]
    monC01C02 1 tr = [] ∧ monC12 tr = [] ∧ recordings tr = [[0]] ∧ (tr.filter (·.ev.isFrame)).length = 0 := by
  decide

/-! ## the model -/

/-- **C01 as a list specification.**  For every configuration with `K ≥ 1`, every event list and every
fault placement except failing motion-sink writes: every motion recording of the model is a contiguous
ascending run `[a, a+1, …]`; over all recordings, oldest first, the ids strictly increase (no frame is
recorded twice, recordings never overlap and come in stream order); every recorded id is the index of an
accepted frame. -/
theorem c01_recordings (c : PCfg) (hK : 0 < c.K) (evs : List Ev) (hw : C01.NoWriteFaults evs) :
    let R := recordings (PState.trace c (PState.init c) evs)
    (∀ r ∈ R, ∃ a, r = List.range' a r.length) ∧ R.flatten.Pairwise (· < ·) ∧
    ∀ id ∈ R.flatten, id < (evs.filter Ev.isFrame).length := by
  intro R
  have hacc := C01.c01_c02_monitor c hK evs hw
  have hnf := trace_no_write_fault c evs (PState.init c) hw
  obtain ⟨h1, h2⟩ := monC01C02_sound c.K _ hacc hnf
  refine ⟨h1, h2, ?_⟩
  intro id hid
  exact Nat.lt_of_lt_of_le (monC01C02_ids_lt_nextFree c.K _ hacc hnf id hid) (model_nextFree_le c hK evs hw)

/-! ## the composed pipeline, throttle off -/

section pipeline
variable {F : FloatOps}

/-- the motion files of the unthrottled pipeline are the recordings of a processor trace: there is an event
list — frames with the detector's verdicts, bad frames, resets, test requests, with the pipeline's fault
record (window and disk gate only) — that takes the processor model to the pipeline's processor state,
whose frame events are the accepted frames, and whose recordings are the motion files -/
theorem pipe_files_are_recordings (c : PipeCfg) (hK : 0 < c.proc.K) (hthr : c.throttle = false)
    (ops : List PipeOp) :
    let p := ops.foldl (Pipe.op c) (Pipe.init F c)
    ∃ evs : List Ev, C01.NoWriteFaults evs ∧
      p.proc = PState.after c.proc (PState.init c.proc) evs ∧
      motionFiles p = recordings (PState.trace c.proc (PState.init c.proc) evs) ∧
      (evs.filter Ev.isFrame).length = p.accepted.length := by
  intro p
  obtain ⟨evs, hev, hp, hfr, hcount⟩ := pi_ops c hK hthr ops (Pipe.init F c) (pi_init c)
  exact ⟨evs, fun e he => (hev e he).1, hp, frel_motionFiles p _ hfr, hcount⟩

/-- **C01 at pipeline level** (throttle off): for every `FloatOps`, every configuration with ring capacity
≥ 1, every sequence of socket items and test-recording requests — each motion file is a contiguous
ascending run of accepted-frame ids, over all motion files (oldest first) the ids strictly increase, and
every id is the index of an accepted frame. -/
theorem pipe_c01 (c : PipeCfg) (hK : 0 < c.proc.K) (hthr : c.throttle = false) (ops : List PipeOp) :
    let p := ops.foldl (Pipe.op c) (Pipe.init F c)
    let R := motionFiles p
    (∀ r ∈ R, ∃ a, r = List.range' a r.length) ∧ R.flatten.Pairwise (· < ·) ∧
    ∀ id ∈ R.flatten, id < p.accepted.length := by
  intro p R
  obtain ⟨evs, hw, _, hR, hcount⟩ := pipe_files_are_recordings (F := F) c hK hthr ops
  have h := c01_recordings c.proc hK evs hw
  show (∀ r ∈ motionFiles p, _) ∧ (motionFiles p).flatten.Pairwise (· < ·) ∧ ∀ id ∈ (motionFiles p).flatten, _
  rw [hR, ← hcount]
  exact h

end pipeline

/-! ## non-vacuity -/

private def cfg : PCfg := { K := 3, minF := 2, maxF := 3, trig := 1, constOn := true, testLast := 1 }

/-- the event list of `Props.C01` -/
private def evs : List Ev :=
  [.frame false {}, .frame false {}, .frame false {}, .frame true {}, .frame true {}, .frame true {},
   .frame true {}, .frame false {}, .frame true { can := false }, .frame true { mStop := false }, .bad {},
   .testReq, .frame true { cStart := false }, .reset {}, .frame false {}, .frame true { mStart := false },
   .frame true { win := false }, .frame true {}]

example : C01.NoWriteFaults evs := by unfold C01.NoWriteFaults; decide

set_option maxRecDepth 8000 in
/-- five recordings: cut by `maxF`, tiling the first, cut by a bad frame, cut by a reset, still open -/
example : recordings (PState.trace cfg (PState.init cfg) evs) =
    [[1, 2, 3, 4, 5], [6, 7], [8, 9], [10], [12, 13, 14]] := by decide

/-- a trace the monitor rejects whose recordings are not contiguous -/
example :
    let tr : List Step := [⟨.frame true {}, [.call .motion .start true, .call .motion (.write 0) true,
      .call .motion (.write 2) true]⟩]
    monC01C02 3 tr = ["C01:not-contiguous"] ∧ recordings tr = [[0, 2]] ∧
    ¬ ∃ a, [0, 2] = List.range' a 2 := by
  refine ⟨by decide, by decide, ?_⟩
  rintro ⟨a, h⟩
  simp [List.range'] at h
  omega

/-- … and one it rejects whose recordings overlap -/
example :
    let tr : List Step :=
      [⟨.frame true {}, [.call .motion .start true, .call .motion (.write 0) true, .call .motion .stop true]⟩,
       ⟨.frame true {}, [.call .motion .start true, .call .motion (.write 0) true, .call .motion (.write 1) true]⟩]
    monC01C02 3 tr ≠ [] ∧ recordings tr = [[0], [0, 1]] ∧ ¬ (recordings tr).flatten.Pairwise (· < ·) := by
  decide

/-- the hypothesis "no failing motion-sink write" is needed: the monitor goes blind (`tainted`) -/
example :
    let tr : List Step := [⟨.frame true {}, [.call .motion .start true, .call .motion (.write 0) false,
      .call .motion (.write 2) true]⟩]
    monC01C02 3 tr = [] ∧ recordings tr = [[0, 2]] := by decide

section pipeExample
open TR.PipeLemmas.Tiny

set_option maxRecDepth 8000 in
/-- the tiny pipeline of `Props.Pipeline`: cold, cold, hot, hot, hot (recording 0–3, ended by the length rule),
a `clear`, a test request, cold, hot, hot (recording 4–7 with its pre-trigger frames), a rejected frame that
ends it, one more frame -/
example : motionFiles ([PipeOp.item cold, .item cold, .item hot, .item hot, .item hot, .item .clear, .testReq,
    .item cold, .item hot, .item hot, .item badf, .item hot].foldl (Pipe.op c0) (Pipe.init F0 c0)) =
    [[0, 1, 2, 3], [4, 5, 6, 7]] := by decide

end pipeExample

end TR.C01Spec
