import Generated.Facts
/-! # Source facts about thermal-writer's `runMain` (C18) — re-extracted by tools/gofacts at every check -/
namespace TR.FactsWriterMain
open Facts

/-- C18: thermal-writer reads its configuration and then serves one camera connection at a time: the listener is closed
(not deferred) before `handleConn` runs on the accepted connection — no second reader goroutine ever shares the file -/
theorem writer_run_main_skeleton : writerRunMainSkeleton =
    "ParseConfig(args.ConfigDir);for{;os.Remove(conf.FrameInput);net.Listen(\"unix\",conf.FrameInput);listener.Accept();listener.Close();handleConn(conn,conf,args.FrameRate);}" := rfl

end TR.FactsWriterMain
