import TR.CPTR
import TR.Handoff
import Proofs.C18Format
import Proofs.C18Handoff

/-!
# C18 — thermal-writer stores every frame exactly once, in order, byte-for-byte, in a well-formed
CPTR file, for every interleaving of the reader and writer goroutines; queued frames are flushed
before the file is closed

* Part A (`TR.CPTR`): decoding an encoded file gives back the header fields and the frames.
* Part B (`TR.Handoff`): invariant of the buffer hand-off over all interleavings (`Reach`), with the
  corollaries: output is a prefix of the input, no aliasing, flush on close, progress.

Helper lemmas: `Proofs/C18Format.lean`, `Proofs/C18Handoff.lean` (definitions `ByteList`, `pendingW`,
`pendingR`, `held`, `heldW`, `idsOf`, `consumedOf`, `HInv` live there).
-/
namespace TR.C18

/-! ## A. format round trip -/
section Format
open TR.CPTR

/-- decoding the encoded file gives back exactly the header fields and the frames, byte for byte -/
theorem c18_format_roundtrip (h : Header) (frames : List (List Nat))
    (hf : ∀ f ∈ frames, f.length < 2 ^ 32) :
    decodeFile (encodeFile h frames) = some (headerFields h, frames) :=
  decodeFile_encodeFile h frames hf

/-- the size byte of every header field and the field count are exact bytes -/
theorem c18_header_wellformed (h : Header) :
    (∀ f ∈ headerFields h, f.data.length < 256) ∧ (headerFields h).length < 256 :=
  ⟨headerFields_size_lt h, by have := (headerFields_length h).2; omega⟩

/-- the numeric header fields read back as the values put in -/
theorem c18_header_readback (h : Header) (ht : h.timestampUs < 2 ^ 64) (hz : h.fps < 256)
    (hx : h.resX < 2 ^ 32) (hy : h.resY < 2 ^ 32) (hi : h.deviceID < 2 ^ 32) :
    (⟨84, le 8 h.timestampUs⟩ : Field) ∈ headerFields h ∧ fromLe (le 8 h.timestampUs) = h.timestampUs ∧
    (⟨90, le 1 h.fps⟩ : Field) ∈ headerFields h ∧ fromLe (le 1 h.fps) = h.fps ∧
    (⟨88, le 4 h.resX⟩ : Field) ∈ headerFields h ∧ fromLe (le 4 h.resX) = h.resX ∧
    (⟨89, le 4 h.resY⟩ : Field) ∈ headerFields h ∧ fromLe (le 4 h.resY) = h.resY ∧
    (⟨73, le 4 h.deviceID⟩ : Field) ∈ headerFields h ∧ fromLe (le 4 h.deviceID) = h.deviceID := by
  refine ⟨?_, fromLe_le_of_lt ht, ?_, fromLe_le_of_lt hz, ?_, fromLe_le_of_lt hx, ?_,
    fromLe_le_of_lt hy, ?_, fromLe_le_of_lt hi⟩ <;>
  simp only [headerFields, List.mem_append, List.mem_cons, true_or, or_true]

/-- a string of at most 255 bytes is stored verbatim -/
theorem c18_header_strings (h : Header) :
    (h.model.length ≤ 255 → (⟨69, h.model⟩ : Field) ∈ headerFields h) ∧
    (h.brand.length ≤ 255 → (⟨66, h.brand⟩ : Field) ∈ headerFields h) ∧
    (h.deviceName.length ≤ 255 → (⟨68, h.deviceName⟩ : Field) ∈ headerFields h) := by
  refine ⟨fun hl => ?_, fun hl => ?_, fun hl => ?_⟩ <;>
  simp only [headerFields, strField, Nat.not_lt.mpr hl, if_false, List.mem_append, List.mem_cons,
    true_or, or_true]

/-- with byte-valued strings and frames the encoded file is a list of bytes -/
theorem c18_file_is_bytes (h : Header) (frames : List (List Nat)) (hm : ByteList h.model)
    (hb : ByteList h.brand) (hd : ByteList h.deviceName) (hfr : ∀ f ∈ frames, ByteList f) :
    ByteList (encodeFile h frames) :=
  encodeFile_byteList h frames hm hb hd hfr

end Format

/-! ## B. hand-off, for every interleaving -/
section Handoff
open TR.Handoff

/-
The invariant as first proposed,

    ∃ consumed, input = consumed ++ s.input ∧
      consumed = s.out ++ pendingW s.writer ++ s.queue.map (·.content) ++ pendingR s.reader ∧
      (idsOf s).Perm (List.range cap)

is FALSE for the model: `rEOF` moves the reader from `.holding b` to `.done`, and buffer `b` is then in
none of {spent, reader, queue, writer} (in Go: `handleConn` returns on the read error still holding
`frame`).  Counterexample (proved below, `c18_partition_fails_after_eof`): cap = 1, input = [],
path `rTake` ; `rEOF` gives `idsOf s = []`, not a permutation of `[0]`.
The first two conjuncts hold as stated; the partition holds as stated while the reader has not
returned, and in general up to that single lost buffer.
-/

/-- the proposed invariant with the partition conjunct weakened: it holds while `s.reader ≠ .done`,
and always after adding back at most one `lost` id -/
theorem c18_handoff_invariant_partial (cap : Nat) (_hc : 0 < cap) (input : List (List Nat)) (s : St)
    (hr : Reach (init cap input) s) :
    ∃ consumed, input = consumed ++ s.input ∧
      consumed = s.out ++ pendingW s.writer ++ s.queue.map (·.content) ++ pendingR s.reader ∧
      (s.reader ≠ .done → (idsOf s).Perm (List.range cap)) ∧
      (∃ lost, lost.length ≤ 1 ∧ (idsOf s ++ lost).Perm (List.range cap)) := by
  have h := hinv_reach hr
  refine ⟨consumedOf s, h.content, rfl, h.ids_perm, ?_⟩
  obtain ⟨lost, hp, _, hl⟩ := h.ids
  exact ⟨lost, hl, hp⟩

/-- the buffer ids in {spent, reader-held, queue, writer-held} are distinct pool ids, always -/
theorem c18_ids_nodup (cap : Nat) (input : List (List Nat)) (s : St) (hr : Reach (init cap input) s) :
    (idsOf s).Nodup ∧ ∀ i ∈ idsOf s, i < cap :=
  ⟨(hinv_reach hr).ids_nodup, (hinv_reach hr).ids_lt⟩

/-- the counterexample to the unweakened partition conjunct -/
theorem c18_partition_fails_after_eof :
    ∃ s, Reach (init 1 []) s ∧ ¬ (idsOf s).Perm (List.range 1) := by
  refine ⟨_, .step (.step .refl (.rTake _ ⟨0, []⟩ [] rfl rfl)) (.rEOF _ ⟨0, []⟩ rfl rfl), ?_⟩
  intro h
  exact absurd h.length_eq (by decide)

/-- 1. what has been written is a prefix of what arrived: every frame at most once, in arrival order,
byte-for-byte -/
theorem c18_out_is_prefix (cap : Nat) (input : List (List Nat)) (s : St)
    (hr : Reach (init cap input) s) : s.out <+: input := by
  have h := (hinv_reach hr).content
  refine ⟨pendingW s.writer ++ s.queue.map (·.content) ++ pendingR s.reader ++ s.input, ?_⟩
  rw [h]; simp only [consumedOf, List.append_assoc]

/-- 2. the buffer the reader is about to fill (or has filled and not yet sent) is not one of the
buffers waiting in the queue, nor the one the writer holds or has just written, nor still in the
spent channel -/
theorem c18_no_aliasing (cap : Nat) (input : List (List Nat)) (s : St) (hr : Reach (init cap input) s)
    (b : Buf) (hb : s.reader = .holding b ∨ s.reader = .filled b) :
    (∀ q ∈ s.queue, q.id ≠ b.id) ∧
    (∀ w, s.writer = .holding w ∨ s.writer = .written w → w.id ≠ b.id) ∧
    (∀ q ∈ s.spent, q.id ≠ b.id) := by
  have hmem : b.id ∈ held s.reader := by
    rcases hb with hb | hb <;> rw [hb] <;> exact List.mem_singleton.mpr rfl
  obtain ⟨h1, h2, h3⟩ := (hinv_reach hr).reader_id_unique hmem
  refine ⟨fun q hq e => h2 (e ▸ List.mem_map_of_mem hq), ?_, fun q hq e => h1 (e ▸ List.mem_map_of_mem hq)⟩
  intro w hw e
  apply h3
  rcases hw with hw | hw <;> rw [hw] <;> exact List.mem_singleton.mpr e.symm

/-- 2'. the frames waiting to be written sit in pairwise distinct buffers, none of which is the
buffer being written or a buffer available for reuse -/
theorem c18_queue_distinct (cap : Nat) (input : List (List Nat)) (s : St)
    (hr : Reach (init cap input) s) :
    (s.queue.map (·.id)).Nodup ∧ (∀ q ∈ s.queue, ∀ p ∈ s.spent, q.id ≠ p.id) ∧
    (∀ w, s.writer = .holding w ∨ s.writer = .written w → ∀ q ∈ s.queue, q.id ≠ w.id) := by
  have h := hinv_reach hr
  obtain ⟨h1, _, h3⟩ := h.queue_spent_disjoint
  refine ⟨h1, fun q hq p hp e => h3 q.id (List.mem_map_of_mem hq) (e ▸ List.mem_map_of_mem hp), ?_⟩
  intro w hw q hq e
  have hmem : w.id ∈ heldW s.writer := by
    rcases hw with hw | hw <;> rw [hw] <;> exact List.mem_singleton.mpr rfl
  exact (h.writer_id_unique hmem).2.1 (e ▸ List.mem_map_of_mem hq)

/-- 3. when the file is closed the reader has returned, nothing is queued or in anybody's hand, and
every frame that arrived has been written -/
theorem c18_flush_on_close (cap : Nat) (input : List (List Nat)) (s : St)
    (hr : Reach (init cap input) s) (hcl : s.fileClosed = true) :
    s.reader = .done ∧ s.writer = .done ∧ s.queue = [] ∧ s.out = input := by
  have h := hinv_reach hr
  have hw : s.writer = .done := h.fileClosed_iff.mp hcl
  obtain ⟨hc, hq⟩ := h.wdone hw
  have hrd : s.reader = .done := h.closed_iff.mp hc
  refine ⟨hrd, hw, hq, ?_⟩
  have := h.content
  simp only [consumedOf, hw, hrd, hq, h.done_input hrd, pendingW, pendingR, List.map_nil,
    List.append_nil] at this
  exact this.symm

/-- the file is closed only after the queue has been closed, and nothing is enqueued after that -/
theorem c18_closed_iff_reader_done (cap : Nat) (input : List (List Nat)) (s : St)
    (hr : Reach (init cap input) s) :
    (s.closed = true ↔ s.reader = .done) ∧ (s.fileClosed = true ↔ s.writer = .done) ∧
    (s.writer = .done → s.closed = true ∧ s.queue = []) ∧ (s.reader = .done → s.input = []) :=
  let h := hinv_reach hr
  ⟨h.closed_iff, h.fileClosed_iff, h.wdone, h.done_input⟩

/-- 4a. the two sends never block: the sender itself holds one of the `cap` buffers, so the
channel it sends to (capacity `cap`) cannot be full -/
theorem c18_send_never_blocks (cap : Nat) (input : List (List Nat)) (s : St)
    (hr : Reach (init cap input) s) :
    (∀ b, s.reader = .filled b → s.queue.length < s.cap) ∧
    (∀ b, s.writer = .written b → s.spent.length < s.cap) := by
  have h := hinv_reach hr
  obtain ⟨k, _, _, hlen⟩ := h.ids_length
  rw [h.cap_eq]
  constructor
  · intro b hb
    simp only [hb, held, List.length_cons, List.length_nil] at hlen
    omega
  · intro b hb
    simp only [hb, heldW, List.length_cons, List.length_nil] at hlen
    omega

/-- 4b. the reader waits for a spent buffer only while the writer has work to do -/
theorem c18_take_blocked_only_while_writer_busy (cap : Nat) (hc : 0 < cap) (input : List (List Nat))
    (s : St) (hr : Reach (init cap input) s) (hi : s.reader = .idle) (hs : s.spent = []) :
    s.queue ≠ [] ∨ ∃ b, s.writer = .holding b ∨ s.writer = .written b := by
  have h := hinv_reach hr
  obtain ⟨k, _, hk, hlen⟩ := h.ids_length
  have hk0 : k = 0 := hk (by rw [hi]; exact fun e => by cases e)
  cases hw : s.writer with
  | holding b => exact .inr ⟨b, .inl rfl⟩
  | written b => exact .inr ⟨b, .inr rfl⟩
  | idle =>
    left; intro hq
    simp only [hi, hs, hq, hw, hk0, held, heldW, List.length_nil] at hlen
    omega
  | done =>
    left; intro hq
    simp only [hi, hs, hq, hw, hk0, held, heldW, List.length_nil] at hlen
    omega

/-- 4. progress: in every reachable state in which the two goroutines have not both returned, some
step is enabled — the hand-off cannot deadlock -/
theorem c18_never_blocked_forever (cap : Nat) (hc : 0 < cap) (input : List (List Nat)) (s : St)
    (hr : Reach (init cap input) s) (hnf : ¬ (s.reader = .done ∧ s.writer = .done)) :
    ∃ t, Step s t := by
  have h := hinv_reach hr
  obtain ⟨hsendR, hsendW⟩ := c18_send_never_blocks cap input s hr
  -- the writer can move unless it is idle with an empty open queue, or done
  have writerMoves : s.writer ≠ .done → (s.writer = .idle → s.queue = [] → s.closed = true) →
      ∃ t, Step s t := by
    intro hnd hidle
    cases hw : s.writer with
    | idle =>
      cases hq : s.queue with
      | nil => exact ⟨_, .wClose s hw hq (hidle hw hq)⟩
      | cons b rest => exact ⟨_, .wRecv s b rest hw hq⟩
    | holding b => exact ⟨_, .wWrite s b hw⟩
    | written b => exact ⟨_, .wReturn s b hw (hsendW b hw)⟩
    | done => exact absurd hw hnd
  cases hrd : s.reader with
  | holding b =>
    cases hin : s.input with
    | nil => exact ⟨_, .rEOF s b hrd hin⟩
    | cons f more => exact ⟨_, .rFill s b f more hrd hin⟩
  | filled b => exact ⟨_, .rSend s b hrd (hsendR b hrd)⟩
  | done =>
    exact writerMoves (fun hw => hnf ⟨hrd, hw⟩) (fun _ _ => h.closed_iff.mpr hrd)
  | idle =>
    cases hsp : s.spent with
    | cons b rest => exact ⟨_, .rTake s b rest hrd hsp⟩
    | nil =>
      have hbusy := c18_take_blocked_only_while_writer_busy cap hc input s hr hrd hsp
      apply writerMoves
      · intro hw
        have := h.closed_iff.mp (h.wdone hw).1
        rw [hrd] at this; cases this
      · intro hw hq
        rcases hbusy with hb | ⟨b, hb | hb⟩
        · exact absurd hq hb
        · rw [hw] at hb; cases hb
        · rw [hw] at hb; cases hb

end Handoff

/-! ## non-vacuity -/
section Examples
open TR.CPTR TR.Handoff

/-- a concrete file: magic, version 2, 'H', 9 fields, …, then two frame sections -/
example : encodeFile exHeader [[1, 2, 3], []] =
    [67, 80, 84, 82, 2, 72, 9,
     8, 84, 0, 224, 37, 218, 254, 91, 6, 0,   3, 69, 108, 101, 112,   1, 66, 102,   1, 90, 9,
     4, 88, 160, 0, 0, 0,   4, 89, 120, 0, 0, 0,   1, 67, 0,   0, 68,   4, 73, 7, 0, 0, 0,
     70, 1, 4, 102, 3, 0, 0, 0, 1, 2, 3,
     70, 1, 4, 102, 0, 0, 0, 0] := by decide

example : decodeFile (encodeFile exHeader [[1, 2, 3], []]) =
    some (headerFields exHeader, [[1, 2, 3], []]) := by decide

/-- the decoder is not trivially accepting: a truncated file is rejected -/
example : decodeFile ((encodeFile exHeader [[1, 2, 3]]).dropLast) = none := by decide

/-- a string longer than 255 bytes is dropped from the header (as in `newThermalRaw`) -/
example (s : List Nat) (h : s.length > 255) :
    (headerFields { exHeader with model := s }).length = 8 := by
  simp only [headerFields, strField, h, if_true, exHeader]; rfl

/-- a complete run with a pool of one buffer: both frames are written, then the file is closed -/
example : ∃ s, Reach (init 1 [[7], [8, 9]]) s ∧ s.fileClosed = true ∧ s.out = [[7], [8, 9]] := by
  refine ⟨_, .step (.step (.step (.step (.step (.step (.step (.step (.step (.step (.step (.step
    (.step (.step (.step .refl
    (.rTake _ ⟨0, []⟩ [] rfl rfl)) (.rFill _ ⟨0, []⟩ [7] [[8, 9]] rfl rfl))
    (.rSend _ ⟨0, [7]⟩ rfl (by decide))) (.wRecv _ ⟨0, [7]⟩ [] rfl rfl)) (.wWrite _ ⟨0, [7]⟩ rfl))
    (.wReturn _ ⟨0, [7]⟩ rfl (by decide))) (.rTake _ ⟨0, [7]⟩ [] rfl rfl))
    (.rFill _ ⟨0, [7]⟩ [8, 9] [] rfl rfl)) (.rSend _ ⟨0, [8, 9]⟩ rfl (by decide)))
    (.wRecv _ ⟨0, [8, 9]⟩ [] rfl rfl)) (.wWrite _ ⟨0, [8, 9]⟩ rfl))
    (.wReturn _ ⟨0, [8, 9]⟩ rfl (by decide))) (.rTake _ ⟨0, [8, 9]⟩ [] rfl rfl))
    (.rEOF _ ⟨0, [8, 9]⟩ rfl rfl)) (.wClose _ rfl rfl rfl), rfl, rfl⟩

/-- the writer lagging as far as it can (pool of two): both buffers queued, nothing written yet, the
reader waits for a spent buffer — and the only enabled step is the writer's -/
example : ∃ s, Reach (init 2 [[1], [2], [3]]) s ∧ s.queue.map (·.content) = [[1], [2]] ∧
    s.out = [] ∧ s.spent = [] ∧ s.reader = .idle ∧ s.input = [[3]] := by
  refine ⟨_, .step (.step (.step (.step (.step (.step .refl
    (.rTake _ ⟨0, []⟩ [⟨1, []⟩] rfl rfl)) (.rFill _ ⟨0, []⟩ [1] [[2], [3]] rfl rfl))
    (.rSend _ ⟨0, [1]⟩ rfl (by decide))) (.rTake _ ⟨1, []⟩ [] rfl rfl))
    (.rFill _ ⟨1, []⟩ [2] [[3]] rfl rfl)) (.rSend _ ⟨1, [2]⟩ rfl (by decide)),
    rfl, rfl, rfl, rfl, rfl⟩

end Examples

end TR.C18
