import Generated.Facts
/-! # Source facts — C17 C11: test recording and continuous file lengths (re-extracted by tools/gofacts at every check; one small module per concern so
that a rewrite of one function re-opens only the obligations of the properties that depend on it) -/
namespace TR.FactsProc
open Facts

/-- C17: a test recording is `testRecLast + 1 = 21` frames; the continuous file is cut after maxFrames+1 -/
theorem test_recording_length : testRecLast + 1 = 21 ∧ testRecStopTest = "mp.snapshotFrames > 20" ∧
    constRecStopTest = "mp.crFrames > mp.maxFrames" := by decide

end TR.FactsProc
