import Proofs.C14Daemons
import Props.C14
/-!
# C14Daemons — the camera daemon and the recorder agree on what crossed the socket

`Props.C14` is about the recorder's reader alone (any well-formed header, any list of valid
items).  Here the writer is the camera daemon's own loop (`TR.Leptond`, cmd/leptond/main.go):
header, blank line, then for each `NextFrame` call either the frame, or — when the camera timed
out or a restart was requested through the service — nothing until the camera has been
power-cycled, then the five bytes `clear`.

Headline (`c14_daemons_agree`): reading the daemon's stream, the recorder gets exactly the camera
description the daemon sent, consumes nothing beyond the blank line, and then sees exactly the
frames the camera delivered (minus those dropped by a requested restart), in order, with exactly
one `clear` per camera restart, ending cleanly at a frame boundary.

Quantifiers: every list of header lines satisfying `IsHeaderLine` (what the YAML encoder emits),
every frame size `N ≥ 5`, every camera history `evs` in which every *delivered* frame
(`CamEv.frame b`) has exactly `N` bytes and does not begin with the bytes `clear`
(`ValidItem N (.frame b)`; nothing is assumed about frames dropped by `resetRequested`), every
fuel larger than the number of events.

The operational transcription of the Go loop (`Leptond.step`, `Leptond.run`, `Leptond.runMain`)
writes exactly `Leptond.stream` (`c14_daemons_operational`).

Derived from `c14_header_exact`, `c14_frames_roundtrip`, `c14_frames_truncated`,
`c14_header_truncated`; none of them is re-proved.
-/
namespace TR.C14Daemons
open TR.Socket TR.C14 TR.Leptond

/-- the hypothesis on the camera history: every frame that reaches the socket is a valid item -/
def ValidHistory (N : Nat) (evs : List CamEv) : Prop :=
  ∀ b, CamEv.frame b ∈ evs → ValidItem N (.frame b)

theorem blankLine_isBlank : IsBlankLine Leptond.blankLine := ⟨0, rfl⟩

/-- everything the daemon sends is a valid item -/
theorem sent_valid {N : Nat} {evs : List CamEv} (hv : ValidHistory N evs) :
    ∀ i ∈ sent evs, ValidItem N i := by
  intro i hi
  obtain ⟨ev, hev, rfl⟩ := mem_sent hi
  cases ev with
  | frame b => exact hv b hev
  | timeout => exact True.intro
  | resetRequested b => exact True.intro

theorem validHistory_take {N : Nat} {evs : List CamEv} (hv : ValidHistory N evs) (k : Nat) :
    ValidHistory N (evs.take k) :=
  fun b hb => hv b (List.mem_of_mem_take hb)

/-- the operational loop (`step`/`run`, a transcription of `runMain`/`runCamera`) writes exactly
the declarative `stream`; from any state, `run` writes the `clear` of the restart under way (if
any) and then one item per event -/
theorem c14_daemons_operational (lines : List (List Nat)) (evs : List CamEv) :
    Leptond.runMain lines evs = Leptond.stream lines evs ∧
    ∀ s, Leptond.run s evs = Leptond.pending s ++ encode (Leptond.sent evs) :=
  ⟨run_eq_stream lines evs, fun s => run_eq s evs⟩

/-- the header part: the recorder reads exactly the header text, and what is left unread is
exactly the encoded items -/
theorem c14_daemons_header (lines : List (List Nat)) (hl : ∀ l ∈ lines, IsHeaderLine l)
    (evs : List CamEv) :
    readHeader (Leptond.stream lines evs) = some (lines.flatten, encode (Leptond.sent evs)) :=
  c14_header_exact lines Leptond.blankLine (encode (Leptond.sent evs)) hl blankLine_isBlank

/-- **Headline.**  The recorder recovers exactly what the camera daemon delivered. -/
theorem c14_daemons_agree (lines : List (List Nat)) (hl : ∀ l ∈ lines, IsHeaderLine l)
    (N : Nat) (hN : 5 ≤ N) (evs : List CamEv) (hv : ValidHistory N evs)
    (fuel : Nat) (hf : evs.length < fuel) :
    ∃ rest, readHeader (Leptond.stream lines evs) = some (lines.flatten, rest) ∧
            parseFrames N fuel rest = (Leptond.sent evs, Ending.eofAtBoundary) :=
  ⟨encode (Leptond.sent evs), c14_daemons_header lines hl evs,
    c14_frames_roundtrip N hN (Leptond.sent evs) (sent_valid hv) fuel
      (by rw [sent_length]; exact hf)⟩

/-- the recorder's connection handler as one function: header text, items, how the loop ended;
`none` = the header could not be read -/
def recorderReads (N fuel : Nat) (bytes : List Nat) : Option (List Nat × List Item × Ending) :=
  match readHeader bytes with
  | none => none
  | some (text, rest) => some (text, parseFrames N fuel rest)

/-- the headline as one equation -/
theorem c14_daemons_agree_reads (lines : List (List Nat)) (hl : ∀ l ∈ lines, IsHeaderLine l)
    (N : Nat) (hN : 5 ≤ N) (evs : List CamEv) (hv : ValidHistory N evs)
    (fuel : Nat) (hf : evs.length < fuel) :
    recorderReads N fuel (Leptond.stream lines evs)
      = some (lines.flatten, Leptond.sent evs, Ending.eofAtBoundary) := by
  obtain ⟨rest, h1, h2⟩ := c14_daemons_agree lines hl N hN evs hv fuel hf
  simp only [recorderReads, h1, h2]

/-- (a) the recorder sees exactly one `clear` per camera restart: as many as there were
`timeout` events plus `resetRequested` events -/
theorem c14_daemons_clears (lines : List (List Nat)) (hl : ∀ l ∈ lines, IsHeaderLine l)
    (N : Nat) (hN : 5 ≤ N) (evs : List CamEv) (hv : ValidHistory N evs)
    (fuel : Nat) (hf : evs.length < fuel) :
    ∃ rest, readHeader (Leptond.stream lines evs) = some (lines.flatten, rest) ∧
      (parseFrames N fuel rest).1.count Item.clear
        = evs.countP CamEv.isTimeout + evs.countP CamEv.isResetRequested := by
  obtain ⟨rest, h1, h2⟩ := c14_daemons_agree lines hl N hN evs hv fuel hf
  exact ⟨rest, h1, by rw [h2]; exact count_clear_sent evs⟩

/-- (b) the frames the recorder sees are the payloads of the `frame` events, in order: none lost,
none duplicated, none invented, and the frames dropped by a requested restart do not appear -/
theorem c14_daemons_frames (lines : List (List Nat)) (hl : ∀ l ∈ lines, IsHeaderLine l)
    (N : Nat) (hN : 5 ≤ N) (evs : List CamEv) (hv : ValidHistory N evs)
    (fuel : Nat) (hf : evs.length < fuel) :
    ∃ rest, readHeader (Leptond.stream lines evs) = some (lines.flatten, rest) ∧
      (parseFrames N fuel rest).1.filterMap Leptond.itemFrame?
        = evs.filterMap CamEv.delivered? := by
  obtain ⟨rest, h1, h2⟩ := c14_daemons_agree lines hl N hN evs hv fuel hf
  exact ⟨rest, h1, by rw [h2]; exact frames_sent evs⟩

/-! ## the connection dies part-way -/

/-- what the daemon had written when it died inside the item of event number `k`: the complete
stream of the first `k` events, then `part` -/
theorem cut_is_prefix (lines : List (List Nat)) (evs : List CamEv) (k : Nat) (hk : k < evs.length)
    (part : List Nat) (hp : part <+: encodeItem (evs[k]).item) :
    Leptond.stream lines (evs.take k) ++ part <+: Leptond.stream lines evs := by
  have hsplit : evs = evs.take k ++ evs[k] :: evs.drop (k + 1) := by
    rw [List.getElem_cons_drop, List.take_append_drop]
  have e : Leptond.stream lines evs
      = Leptond.stream lines (evs.take k)
        ++ (encodeItem (evs[k]).item ++ encode (Leptond.sent (evs.drop (k + 1)))) := by
    conv => lhs; rw [hsplit]
    simp only [Leptond.stream, sent_append, sent_cons, encode_append, encode_cons,
      List.append_assoc]
  rw [e]
  exact (List.prefix_append_right_inj _).2 (hp.trans (List.prefix_append _ _))

/-- (c) the connection dies inside an item (a non-empty proper part of the item of event `k` got
through): the recorder has read the header, has delivered exactly the items of the first `k`
events — a prefix of `sent evs` — and reports `truncated` -/
theorem c14_daemons_truncated (lines : List (List Nat)) (hl : ∀ l ∈ lines, IsHeaderLine l)
    (N : Nat) (hN : 5 ≤ N) (evs : List CamEv) (hv : ValidHistory N evs)
    (k : Nat) (hk : k < evs.length) (part : List Nat)
    (hp : part <+: encodeItem (evs[k]).item) (hne : part ≠ [])
    (hne' : part ≠ encodeItem (evs[k]).item)
    (fuel : Nat) (hf : k + 1 < fuel) :
    Leptond.stream lines (evs.take k) ++ part <+: Leptond.stream lines evs ∧
    Leptond.sent (evs.take k) <+: Leptond.sent evs ∧
    ∃ rest, readHeader (Leptond.stream lines (evs.take k) ++ part) = some (lines.flatten, rest) ∧
      parseFrames N fuel rest = (Leptond.sent (evs.take k), Ending.truncated) := by
  refine ⟨cut_is_prefix lines evs k hk part hp, sent_take_prefix evs k,
    encode (Leptond.sent (evs.take k)) ++ part, ?_, ?_⟩
  · have e : Leptond.stream lines (evs.take k) ++ part
        = lines.flatten ++ Leptond.blankLine ++ (encode (Leptond.sent (evs.take k)) ++ part) := by
      simp only [Leptond.stream, List.append_assoc]
    rw [e]
    exact c14_header_exact lines Leptond.blankLine _ hl blankLine_isBlank
  · have hlast : ValidItem N (evs[k]).item :=
      sent_valid hv _ (by simp only [Leptond.sent]; exact List.mem_map_of_mem (List.getElem_mem hk))
    refine c14_frames_truncated N hN (Leptond.sent (evs.take k))
      (sent_valid (validHistory_take hv k)) (evs[k]).item hlast part hp hne hne' fuel ?_
    rw [sent_length, List.length_take]
    omega

/-- (c′) every way the connection can die: for EVERY prefix `pre` of the daemon's stream, either
the cut is inside the header and the recorder reports an error (no partial camera description),
or the recorder has read the full header and delivered exactly the items of the first `k` events
for some `k` — never a partial, shifted or invented frame — and the ending says whether the cut
was at an item boundary -/
theorem c14_daemons_any_cut (lines : List (List Nat)) (hl : ∀ l ∈ lines, IsHeaderLine l)
    (N : Nat) (hN : 5 ≤ N) (evs : List CamEv) (hv : ValidHistory N evs)
    (pre : List Nat) (hpre : pre <+: Leptond.stream lines evs)
    (fuel : Nat) (hf : evs.length + 1 < fuel) :
    (pre.length < (Leptond.sendCameraSpecs lines).length ∧ readHeader pre = none) ∨
    ∃ k rest e, k ≤ evs.length ∧
      readHeader pre = some (lines.flatten, rest) ∧
      parseFrames N fuel rest = (Leptond.sent (evs.take k), e) ∧
      (e = Ending.eofAtBoundary ↔ pre = Leptond.stream lines (evs.take k)) := by
  rcases prefix_append_cases hpre with h1 | ⟨q, rfl, hq⟩
  · by_cases hfull : pre = lines.flatten ++ Leptond.blankLine
    · -- exactly the header: nothing after it, clean end before the first item
      refine Or.inr ⟨0, [], Ending.eofAtBoundary, Nat.zero_le _, ?_, ?_, ?_⟩
      · have := c14_header_exact lines Leptond.blankLine [] hl blankLine_isBlank
        rw [List.append_nil] at this
        rw [hfull]; exact this
      · obtain ⟨f, rfl⟩ : ∃ f, fuel = f + 1 := ⟨fuel - 1, by omega⟩
        simp [parseFrames_nil, sent_nil]
      · simp [hfull, Leptond.stream, sent_nil, encode_nil]
    · refine Or.inl ⟨?_, c14_header_truncated lines Leptond.blankLine hl blankLine_isBlank pre h1 hfull⟩
      rcases Nat.lt_or_ge pre.length (lines.flatten ++ Leptond.blankLine).length with h | h
      · exact h
      · exact absurd (h1.eq_of_length_le h) hfull
  · obtain ⟨k, part, hk, rfl, hcase⟩ := prefix_encode_cases _ q hq
    rw [sent_length] at hk
    have hhead : readHeader (lines.flatten ++ Leptond.blankLine
          ++ (encode ((Leptond.sent evs).take k) ++ part))
        = some (lines.flatten, encode ((Leptond.sent evs).take k) ++ part) :=
      c14_header_exact lines Leptond.blankLine _ hl blankLine_isBlank
    have hvk : ∀ i ∈ (Leptond.sent evs).take k, ValidItem N i :=
      fun i hi => sent_valid hv i (List.mem_of_mem_take hi)
    have hlen : ((Leptond.sent evs).take k).length = k := by
      rw [List.length_take, sent_length]; omega
    rcases hcase with rfl | ⟨last, hlast, hp, hne, hne'⟩
    · refine Or.inr ⟨k, _, Ending.eofAtBoundary, hk, hhead, ?_, ?_⟩
      · rw [List.append_nil, sent_take]
        exact c14_frames_roundtrip N hN _ hvk fuel (by rw [hlen]; omega)
      · simp [Leptond.stream, sent_take]
    · refine Or.inr ⟨k, _, Ending.truncated, hk, hhead, ?_, ?_⟩
      · rw [sent_take]
        have hl' : ValidItem N last :=
          sent_valid hv last (List.mem_of_getElem? hlast)
        exact c14_frames_truncated N hN _ hvk last hl' part hp hne hne' fuel
          (by rw [hlen]; omega)
      · constructor
        · intro h; cases h
        · intro h
          exfalso
          apply hne
          rw [Leptond.stream, sent_take, ← List.append_assoc] at h
          exact List.append_right_eq_self.1 h

/-! ## non-vacuity -/

/-- header "a: 1\n" "b\n" -/
def exHeader : List (List Nat) := [[97, 58, 32, 49, 10], [98, 10]]

/-- frame, frame, NextFrame error, restart requested (that frame is dropped), frame — size 6 -/
def exEvs : List CamEv :=
  [.frame [1, 2, 3, 4, 5, 6], .frame [0, 99, 108, 101, 97, 114], .timeout,
   .resetRequested [7, 7, 7, 7, 7, 7], .frame [11, 12, 13, 14, 15, 16]]

theorem exHeader_ok : ∀ l ∈ exHeader, IsHeaderLine l := by
  intro l hl
  simp only [exHeader, List.mem_cons, List.not_mem_nil, or_false] at hl
  rcases hl with rfl | rfl
  · exact ⟨[97, 58, 32, 49], rfl, by decide, by decide⟩
  · exact ⟨[98], rfl, by decide, by decide⟩

theorem exEvs_ok : ValidHistory 6 exEvs := by
  intro b hb
  simp only [exEvs, List.mem_cons, List.not_mem_nil, or_false, CamEv.frame.injEq,
    reduceCtorEq, false_or, or_false] at hb
  rcases hb with rfl | rfl | rfl <;> exact ⟨rfl, by decide⟩

/-- what the daemon sends for that history: the dropped frame is absent, each restart is one
`clear` -/
example :
    Leptond.sent exEvs
      = [.frame [1, 2, 3, 4, 5, 6], .frame [0, 99, 108, 101, 97, 114], .clear, .clear,
         .frame [11, 12, 13, 14, 15, 16]] := by
  decide

/-- the bytes on the wire, and the operational loop writes the same bytes -/
example :
    Leptond.stream exHeader exEvs
      = [97, 58, 32, 49, 10, 98, 10] ++ [10]
        ++ [1, 2, 3, 4, 5, 6, 0, 99, 108, 101, 97, 114, 99, 108, 101, 97, 114,
            99, 108, 101, 97, 114, 11, 12, 13, 14, 15, 16] ∧
    Leptond.runMain exHeader exEvs = Leptond.stream exHeader exEvs := by
  decide

/-- the state machine on the same history, event by event: state after the event and the bytes
the event wrote (the `clear` of a restart is written on the way to the next `NextFrame`) -/
example :
    Leptond.step .inCamera (.frame [1, 2, 3, 4, 5, 6]) = (.inCamera, [1, 2, 3, 4, 5, 6]) ∧
    Leptond.step .inCamera .timeout = (.restarting, []) ∧
    Leptond.step .restarting (.resetRequested [7, 7, 7, 7, 7, 7])
      = (.restarting, [99, 108, 101, 97, 114]) ∧
    Leptond.step .restarting (.frame [11, 12, 13, 14, 15, 16])
      = (.inCamera, [99, 108, 101, 97, 114, 11, 12, 13, 14, 15, 16]) ∧
    Leptond.run .restarting [] = [99, 108, 101, 97, 114] := by
  decide

/-- the recorder on that stream (the hypotheses of the headline are satisfiable; `readHeader`
is defined by well-founded recursion, so its value comes from the theorem, the frame loop's by
evaluation) -/
example :
    readHeader (Leptond.stream exHeader exEvs)
      = some ([97, 58, 32, 49, 10, 98, 10],
              [1, 2, 3, 4, 5, 6, 0, 99, 108, 101, 97, 114, 99, 108, 101, 97, 114,
               99, 108, 101, 97, 114, 11, 12, 13, 14, 15, 16]) ∧
    parseFrames 6 6 [1, 2, 3, 4, 5, 6, 0, 99, 108, 101, 97, 114, 99, 108, 101, 97, 114,
                     99, 108, 101, 97, 114, 11, 12, 13, 14, 15, 16]
      = ([.frame [1, 2, 3, 4, 5, 6], .frame [0, 99, 108, 101, 97, 114], .clear, .clear,
          .frame [11, 12, 13, 14, 15, 16]], Ending.eofAtBoundary) ∧
    recorderReads 6 6 (Leptond.stream exHeader exEvs)
      = some ([97, 58, 32, 49, 10, 98, 10], Leptond.sent exEvs, Ending.eofAtBoundary) :=
  ⟨c14_daemons_header exHeader exHeader_ok exEvs, by decide,
    c14_daemons_agree_reads exHeader exHeader_ok 6 (by decide) exEvs exEvs_ok 6 (by decide)⟩

/-- corollaries (a) and (b) on the example: two restarts, two `clear`s; three delivered frames -/
example :
    (Leptond.sent exEvs).count Item.clear = 2 ∧
    exEvs.countP CamEv.isTimeout + exEvs.countP CamEv.isResetRequested = 2 ∧
    (Leptond.sent exEvs).filterMap Leptond.itemFrame?
      = [[1, 2, 3, 4, 5, 6], [0, 99, 108, 101, 97, 114], [11, 12, 13, 14, 15, 16]] ∧
    exEvs.filterMap CamEv.delivered?
      = [[1, 2, 3, 4, 5, 6], [0, 99, 108, 101, 97, 114], [11, 12, 13, 14, 15, 16]] := by
  decide

/-- (c) on the example: the connection dies three bytes into the second `clear` (event 3): the
two frames and the first `clear` are delivered, then `truncated` -/
example :
    parseFrames 6 6 ([1, 2, 3, 4, 5, 6, 0, 99, 108, 101, 97, 114, 99, 108, 101, 97, 114]
        ++ [99, 108, 101])
      = (Leptond.sent (exEvs.take 3), Ending.truncated) := by
  decide

/-- why "a delivered frame does not begin with the marker" is needed: a camera frame whose first
five bytes happen to be `clear` is sent as it is, and the recorder reads it as a reset followed by
a truncated item — the frame is lost and so is the alignment of everything after it.  Nothing in
the daemon prevents this; the wire format cannot express such a frame. -/
example :
    Leptond.sent [.frame [99, 108, 101, 97, 114, 7], .frame [1, 2, 3, 4, 5, 6]]
      = [.frame [99, 108, 101, 97, 114, 7], .frame [1, 2, 3, 4, 5, 6]] ∧
    parseFrames 6 3
        (encode (Leptond.sent [.frame [99, 108, 101, 97, 114, 7], .frame [1, 2, 3, 4, 5, 6]]))
      = ([.clear, .frame [7, 1, 2, 3, 4, 5]], Ending.truncated) ∧
    ¬ ValidHistory 6 [.frame [99, 108, 101, 97, 114, 7], .frame [1, 2, 3, 4, 5, 6]] := by
  refine ⟨by decide, by decide, ?_⟩
  intro h
  exact (h [99, 108, 101, 97, 114, 7] (by simp)).2 (by decide)

/-- nothing is assumed about a frame dropped by a requested restart: even one that begins with
`clear` and has the wrong size does no harm, because it never reaches the socket -/
example :
    ValidHistory 6 [.resetRequested [99, 108, 101, 97, 114], .frame [1, 2, 3, 4, 5, 6]] ∧
    parseFrames 6 3
        (encode (Leptond.sent [.resetRequested [99, 108, 101, 97, 114], .frame [1, 2, 3, 4, 5, 6]]))
      = ([.clear, .frame [1, 2, 3, 4, 5, 6]], Ending.eofAtBoundary) := by
  refine ⟨?_, by decide⟩
  intro b hb
  simp only [List.mem_cons, List.not_mem_nil, or_false, reduceCtorEq, false_or,
    CamEv.frame.injEq] at hb
  subst hb
  exact ⟨rfl, by decide⟩

end TR.C14Daemons
