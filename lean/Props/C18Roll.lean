import TR.Handoff
import TR.HandoffRoll
import Proofs.C18Handoff
import Proofs.C18Roll
import Props.C18

/-!
# C18 (roll-over) — thermal-writer with the one-minute file roll-over stores every frame exactly once,
in arrival order, across its output files; closed files are never touched again; when the connection
ends all queued frames are flushed before the last file is closed and no file is left open

Model: `TR/HandoffRoll.lean` (`St`, `Step`, `Reach`, `files`, `allOut`, `erase`, `StepBad`).
Lemmas: `Proofs/C18Roll.lean` (`step_sim`, `erase_reach`, `step_lift`, `step_files`,
`step_closed_fixed`, `reach_closed_fixed`, …).

Route: `erase` (forget the file boundaries) is a simulation into the one-file system `TR.Handoff`
(`c18r_refines_one_file`): each step is a `TR.Handoff.Step` or a stutter.  The prefix, no-aliasing,
flush and progress theorems are the one-file theorems of `Props/C18.lean` read through `erase`.
All statements are for every capacity, every input, every interleaving (`Reach`), and every firing
pattern of the roll-over timer.
-/
namespace TR.C18Roll
open TR.Handoff (Buf RPhase WPhase)
open TR.HandoffRoll

/-! ## refinement link to the one-file model -/

/-- erasing the file boundaries maps every step from a reachable state to a step of `TR.Handoff` or to
a stutter, the initial state to the initial state, hence every run to a run with `out = allOut` -/
theorem c18r_refines_one_file (cap : Nat) (input : List (List Nat)) :
    erase (init cap input) = TR.Handoff.init cap input ∧
    (∀ s t, Reach (init cap input) s → Step s t →
      TR.Handoff.Step (erase s) (erase t) ∨ erase t = erase s) ∧
    (∀ s, Reach (init cap input) s →
      TR.Handoff.Reach (TR.Handoff.init cap input) (erase s) ∧ (erase s).out = allOut s) := by
  refine ⟨rfl, ?_, fun s hr => ⟨erase_reach hr, rfl⟩⟩
  intro s t hr hs
  apply step_sim hs
  intro hw
  cases hc : s.cur.closed with
  | false => rfl
  | true =>
    have := (cur_closed_iff hr).mp hc
    rw [hw] at this; cases this

/-- conversely every one-file step from an erased state is the image of a step of the roll-over system
(so the roll-over system has no fewer behaviours, and inherits progress) -/
theorem c18r_one_file_step_lifts (s : St) (u : TR.Handoff.St)
    (h : TR.Handoff.Step (erase s) u) : ∃ t, Step s t ∧ erase t = u :=
  step_lift h

/-! ## the headline properties -/

/-- 1. everything stored so far, read across the files in creation order, is a prefix of what arrived:
every frame at most once, in arrival order, byte-for-byte -/
theorem c18r_out_is_prefix (cap : Nat) (input : List (List Nat)) (s : St)
    (hr : Reach (init cap input) s) : allOut s <+: input :=
  TR.C18.c18_out_is_prefix cap input (erase s) (erase_reach hr)

/-- 1'. the full accounting: input = stored ++ in the writer's hand ++ queued ++ in the reader's hand
++ still to arrive -/
theorem c18r_accounting (cap : Nat) (input : List (List Nat)) (s : St)
    (hr : Reach (init cap input) s) :
    input = allOut s ++ TR.C18.pendingW s.writer ++ s.queue.map (·.content) ++
      TR.C18.pendingR s.reader ++ s.input :=
  (hinv_erase hr).content

/-- 2. (invariant) every file but the last is closed, and the last one is closed exactly when the
writer has returned;
(step) a step either leaves the files alone, or appends one frame to the LAST file, or closes the last
file (and, for a roll-over, adds a fresh empty open file after it); the files before the last are
untouched, and every file that is closed stays at its position with its content -/
theorem c18r_closed_files_stay (cap : Nat) (input : List (List Nat)) (s : St)
    (hr : Reach (init cap input) s) :
    (∀ f ∈ (files s).dropLast, f.closed = true) ∧
    ((files s).getLast? = some s.cur ∧ (s.cur.closed = true ↔ s.writer = .done)) ∧
    (∀ t, Step s t →
      FilesChange s t ∧
      (files s).dropLast <+: (files t).dropLast ∧
      (∀ (i : Nat) (f : FileRec), (files s)[i]? = some f → f.closed = true →
        (files t)[i]? = some f)) := by
  refine ⟨?_, ⟨files_getLast? s, cur_closed_iff hr⟩, ?_⟩
  · rw [files_dropLast]; exact done_closed hr
  · intro t hs
    refine ⟨step_files hs, ?_, fun i f hi hf =>
      step_closed_fixed hs (cur_closed_iff hr).mp i f hi hf⟩
    rw [files_dropLast, files_dropLast]
    rcases step_done hs with e | ⟨_, e⟩
    · rw [e]; exact List.prefix_refl _
    · rw [e]; exact List.prefix_append _ _

/-- 2'. a file that is closed in some reachable state is the same file, at the same position, in every
later state of the run -/
theorem c18r_closed_files_stay_forever (cap : Nat) (input : List (List Nat)) (s t : St)
    (hr : Reach (init cap input) s) (hst : Reach s t) (i : Nat) (f : FileRec)
    (hi : (files s)[i]? = some f) (hf : f.closed = true) : (files t)[i]? = some f :=
  reach_closed_fixed hr hst i f hi hf

/-- 3. when the writer has returned: the reader has returned, nothing is queued, EVERY file is closed
(none left unflushed), and the files together hold exactly the frames that arrived -/
theorem c18r_flush_on_close (cap : Nat) (input : List (List Nat)) (s : St)
    (hr : Reach (init cap input) s) (hw : s.writer = .done) :
    s.reader = .done ∧ s.queue = [] ∧ (∀ f ∈ files s, f.closed = true) ∧ allOut s = input := by
  have hc : s.cur.closed = true := (cur_closed_iff hr).mpr hw
  obtain ⟨h1, _, h3, h4⟩ :=
    TR.C18.c18_flush_on_close cap input (erase s) (erase_reach hr) hc
  refine ⟨h1, h3, ?_, h4⟩
  intro f hf
  rcases List.mem_append.mp hf with hf | hf
  · exact done_closed hr f hf
  · rw [List.mem_singleton.mp hf]; exact hc

/-- 3'. the same, starting from "the last file is closed" (the form of `c18_flush_on_close`) -/
theorem c18r_flush_on_last_closed (cap : Nat) (input : List (List Nat)) (s : St)
    (hr : Reach (init cap input) s) (hc : s.cur.closed = true) :
    s.reader = .done ∧ s.writer = .done ∧ s.queue = [] ∧ (∀ f ∈ files s, f.closed = true) ∧
      allOut s = input := by
  have hw := (cur_closed_iff hr).mp hc
  obtain ⟨h1, h2, h3, h4⟩ := c18r_flush_on_close cap input s hr hw
  exact ⟨h1, hw, h2, h3, h4⟩

/-- 3''. while the writer has not returned, the last file is open (frames can only go into an open
file) -/
theorem c18r_current_open (cap : Nat) (input : List (List Nat)) (s : St)
    (hr : Reach (init cap input) s) (hw : s.writer ≠ .done) : s.cur.closed = false := by
  cases hc : s.cur.closed with
  | false => rfl
  | true => exact absurd ((cur_closed_iff hr).mp hc) hw

/-- 4. the buffer the reader is about to fill (or has filled and not yet sent) is not one of the
buffers waiting in the queue, nor the one the writer holds or has just written, nor still in the
spent channel -/
theorem c18r_no_aliasing (cap : Nat) (input : List (List Nat)) (s : St)
    (hr : Reach (init cap input) s) (b : Buf)
    (hb : s.reader = .holding b ∨ s.reader = .filled b) :
    (∀ q ∈ s.queue, q.id ≠ b.id) ∧
    (∀ w, s.writer = .holding w ∨ s.writer = .written w → w.id ≠ b.id) ∧
    (∀ q ∈ s.spent, q.id ≠ b.id) :=
  TR.C18.c18_no_aliasing cap input (erase s) (erase_reach hr) b hb

/-- 4'. the queued frames sit in pairwise distinct buffers, none of which is being written or is
available for reuse -/
theorem c18r_queue_distinct (cap : Nat) (input : List (List Nat)) (s : St)
    (hr : Reach (init cap input) s) :
    (s.queue.map (·.id)).Nodup ∧ (∀ q ∈ s.queue, ∀ p ∈ s.spent, q.id ≠ p.id) ∧
    (∀ w, s.writer = .holding w ∨ s.writer = .written w → ∀ q ∈ s.queue, q.id ≠ w.id) :=
  TR.C18.c18_queue_distinct cap input (erase s) (erase_reach hr)

/-- 5. progress: in every reachable state in which the two goroutines have not both returned, some
step OTHER than a roll-over is enabled — the hand-off cannot deadlock, and the roll-over timer is not
needed to keep it going -/
theorem c18r_never_blocked_forever (cap : Nat) (hc : 0 < cap) (input : List (List Nat)) (s : St)
    (hr : Reach (init cap input) s) (hnf : ¬ (s.reader = .done ∧ s.writer = .done)) :
    ∃ t, Step s t ∧ TR.Handoff.Step (erase s) (erase t) := by
  obtain ⟨u, hu⟩ :=
    TR.C18.c18_never_blocked_forever cap hc input (erase s) (erase_reach hr) hnf
  obtain ⟨t, ht, e⟩ := step_lift hu
  exact ⟨t, ht, e ▸ hu⟩

/-- 5'. the roll-over cannot go on for ever on its own account: it is enabled only at the `select`,
and it changes nothing but the file list (so it cannot disable any other step) -/
theorem c18r_roll_is_stutter (cap : Nat) (input : List (List Nat)) (s : St)
    (hr : Reach (init cap input) s) (hw : s.writer = .idle) :
    Step s { s with done := s.done ++ [{ s.cur with closed := true }], cur := ⟨[], false⟩ } ∧
    erase { s with done := s.done ++ [{ s.cur with closed := true }], cur := ⟨[], false⟩ } =
      erase s := by
  refine ⟨.wRoll s hw, ?_⟩
  have ho := c18r_current_open cap input s hr (by rw [hw]; exact fun e => by cases e)
  simp only [erase, allOut_roll, ho]

/-! ## non-vacuity -/
section Examples

/-- capacity 2, frames f0 = [10], f1 = [11], f2 = [12]; the reader runs ahead (both buffers queued),
the timer fires after f1 has been written while f2 is already waiting in the queue; at the end the
files are `[[f0, f1] closed, [f2] closed]` -/
theorem c18r_example_run :
    ∃ s, Reach (init 2 [[10], [11], [12]]) s ∧ s.reader = .done ∧ s.writer = .done ∧
      files s = [⟨[[10], [11]], true⟩, ⟨[[12]], true⟩] := by
  refine ⟨_, .step (.step (.step (.step (.step (.step (.step (.step (.step (.step (.step (.step
    (.step (.step (.step (.step (.step (.step (.step (.step (.step (.step .refl
    (.rTake _ ⟨0, []⟩ [⟨1, []⟩] rfl rfl)) (.rFill _ ⟨0, []⟩ [10] [[11], [12]] rfl rfl))
    (.rSend _ ⟨0, [10]⟩ rfl (by decide))) (.rTake _ ⟨1, []⟩ [] rfl rfl))
    (.rFill _ ⟨1, []⟩ [11] [[12]] rfl rfl)) (.rSend _ ⟨1, [11]⟩ rfl (by decide)))
    (.wRecv _ ⟨0, [10]⟩ [⟨1, [11]⟩] rfl rfl)) (.wWrite _ ⟨0, [10]⟩ rfl))
    (.wReturn _ ⟨0, [10]⟩ rfl (by decide))) (.rTake _ ⟨0, [10]⟩ [] rfl rfl))
    (.rFill _ ⟨0, [10]⟩ [12] [] rfl rfl)) (.rSend _ ⟨0, [12]⟩ rfl (by decide)))
    (.wRecv _ ⟨1, [11]⟩ [⟨0, [12]⟩] rfl rfl)) (.wWrite _ ⟨1, [11]⟩ rfl))
    (.wReturn _ ⟨1, [11]⟩ rfl (by decide)))
    (.wRoll _ rfl))
    (.wRecv _ ⟨0, [12]⟩ [] rfl rfl)) (.wWrite _ ⟨0, [12]⟩ rfl))
    (.wReturn _ ⟨0, [12]⟩ rfl (by decide))) (.rTake _ ⟨1, [11]⟩ [⟨0, [12]⟩] rfl rfl))
    (.rEOF _ ⟨1, [11]⟩ rfl rfl)) (.wClose _ rfl rfl rfl), rfl, rfl, rfl⟩

/-- the timer firing twice in a row gives an empty (closed) file -/
example : ∃ s, Reach (init 1 []) s ∧ s.writer = .done ∧
    files s = [⟨[], true⟩, ⟨[], true⟩, ⟨[], true⟩] := by
  refine ⟨_, .step (.step (.step (.step (.step .refl (.wRoll _ rfl)) (.wRoll _ rfl))
    (.rTake _ ⟨0, []⟩ [] rfl rfl)) (.rEOF _ ⟨0, []⟩ rfl rfl)) (.wClose _ rfl rfl rfl), rfl, rfl⟩

/-- NEGATIVE example: with the final close bound to the FIRST file (`defer builder.Close()` after the
first `newThermalRaw`), one roll-over is enough to end with the writer returned and the last file —
holding frame [7] — still open: `c18r_flush_on_close` fails for `StepBad` -/
theorem c18r_bad_close_leaves_last_file_open :
    ∃ s, ReachBad (init 1 [[7]]) s ∧ s.reader = .done ∧ s.writer = .done ∧
      files s = [⟨[], true⟩, ⟨[[7]], false⟩] ∧ ¬ (∀ f ∈ files s, f.closed = true) := by
  refine ⟨_, .step (.step (.step (.step (.step (.step (.step (.step (.step (.step .refl
    (.rTake _ ⟨0, []⟩ [] rfl rfl)) (.rFill _ ⟨0, []⟩ [7] [] rfl rfl))
    (.rSend _ ⟨0, [7]⟩ rfl (by decide))) (.wRoll _ rfl)) (.wRecv _ ⟨0, [7]⟩ [] rfl rfl))
    (.wWrite _ ⟨0, [7]⟩ rfl)) (.wReturn _ ⟨0, [7]⟩ rfl (by decide)))
    (.rTake _ ⟨0, [7]⟩ [] rfl rfl)) (.rEOF _ ⟨0, [7]⟩ rfl rfl))
    (.wCloseFirst _ rfl rfl rfl), rfl, rfl, rfl, ?_⟩
  intro h
  have := h ⟨[[7]], false⟩ (by decide)
  cases this

/-- without a roll-over the faulty variant behaves like the correct one (the first file IS the
current file), which is why the fault needs the multi-file model to be seen -/
example : ∃ s, ReachBad (init 1 []) s ∧ s.writer = .done ∧ files s = [⟨[], true⟩] := by
  refine ⟨_, .step (.step (.step .refl (.rTake _ ⟨0, []⟩ [] rfl rfl)) (.rEOF _ ⟨0, []⟩ rfl rfl))
    (.wCloseFirst _ rfl rfl rfl), rfl, rfl⟩

end Examples

end TR.C18Roll
