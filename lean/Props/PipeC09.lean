import Props.C09
import Props.PipeC04
import Proofs.PipeC09
/-!
# C09 at pipeline level: camera reset and FFC periods over whole socket histories

"After a camera reset ('clear' on the frame socket) detection results no longer depend on any frame from before
it; frames are never compared across a camera restart (fixed threshold).  No frame within 10 s after an FFC is
ever reported as motion, nor is the first frame after that period."

`Props.C09` proves this for the detector alone.  Here the detector sits inside the composed pipeline of
`TR.Pipeline`, driven by whole socket histories with the window / disk gates changing between steps
(`Proofs.PipeC04`: `GOp`, `Pipe.gop`, `runG F c gs`, `evsG F c gs` — the processor events a history induces,
each accepted frame carrying the detector's verdict).  Definitions in `Proofs.PipeC09`:

* `devOf c g` / `devsG c gs` — the detector event(s) a step / a history induces: `.frame pix ffc` for a socket
  frame the parser accepts (`ffc = ffcOf c tel`, computed from the frame's own telemetry), `.reset` for the `clear`
  marker, nothing for a rejected frame or a test request;
* `verdictsOf evs` — the motion bits of the frame events of a processor event list;
* `flagsAfter devs` — the two detector flags `(firstDiff, affected)` after a detector event list: a function of
  its SHAPE only (`affected` = FFC flag of the last frame, `firstDiff` = false until the first frame, toggling
  during an FFC period; a reset changes neither);
* `startFlags c p gs` — for each step of `gs`, run from pipeline state `p`: did it start a motion file?

Results (every `FloatOps`, every configuration, every history unless stated):

1. `pipe_det_after_clear`, `pipe_runG_det`, `reset_keeps_drops`, `pipe_reset_vs_init`: the detector after a marker
   is `Det.reset` of the detector before; with a fixed threshold it equals a fresh `Det.init` on every field
   except the two flags `firstDiff` / `affected` (kept from before the marker) and the stale slot contents of the
   two rings (which `Oldest()` cannot reach: `Proofs.PipeC09.Fresh`).
2. `pipe_c09_reset_independence` (fixed threshold, from `C09.c09c_reset_independence`): two histories
   `gs₁ ++ [clr] ++ tail`, `gs₂ ++ [clr'] ++ tail` whose prefixes induce detector events of the same shape induce the
   SAME processor events on `tail` — in particular the same verdicts.  `pipe_c09_reset_independence_flags`:
   the same for ARBITRARY prefixes that leave the same two flags (`pipe_c09_reset_independence_noffc`: e.g. no
   accepted frame of either prefix is FFC-affected and each has one).  WITHOUT the hypothesis on the flags the
   statement is FALSE (`reset_independence_needs_flags`, by `decide`): the FFC flag of the last frame before the
   camera restart is remembered across it and silences the two frames after it.
   Files: `pipe_c09_file_starts` — the steps of `tail` at which a motion file starts, and the number of files
   started, coincide (throttle off; `countThresh ≥ 1`, or `trig ≤ 1`, or equal `triggered` counters — the
   processor's `Reset` keeps the run of motion frames when no recording is open; an example shows the hypothesis is
   needed); `pipe_c09_recording_extents` — on the common events of the tail the two processors start AND stop
   their recordings at the same events.  Not claimed (and false, see the example): equal PRE-trigger frames — the
   processor's `Reset` does not empty its frame ring, so the first file after a marker may begin with frames from
   before the camera restart.
3. `pipe_c09_no_motion_in_ffc`, `pipe_c09_no_start_in_ffc` (`…_thr` with the throttle), `pipe_c09_quiet_run`:
   an accepted frame that is FFC-affected, or whose last accepted predecessor was (markers, rejected frames and
   test requests in between do not matter), has verdict `false`, and no motion file starts at that step.
4. Non-vacuity by `decide` on the `Tiny` pipeline.
5. The known finding F7 (dynamic threshold) restated at pipeline level as a negative example.
-/
namespace TR.PipeC09
open TR TR.C01Spec TR.PipeC04 TR.PipeLemmas

section pipeline
variable {F : FloatOps}

/-! ## (1) the detector across a `clear` marker -/

/-- **the detector state after a reset marker is `Det.reset` of the state before it** -/
theorem pipe_det_after_clear (c : PipeCfg) (gs : List GOp) (g : GOp) (h : g.op = .item .clear) :
    (Pipe.gop c (runG F c gs) g).det = (runG F c gs).det.reset := by
  rw [gop_det, devOf_clear c g h]
  rfl

/-- the detector of the pipeline is the detector model run on the induced detector events -/
theorem pipe_runG_det (c : PipeCfg) (gs : List GOp) :
    (runG F c gs).det = Det.after c.det (Det.init F c.det) (devsG c gs) := runG_det c gs

/-- what `Reset` keeps and what it drops (any threshold mode): both frame rings are rewound (slot contents stay),
`backgroundFrames` is zeroed; the two flags, the threshold and the background / weights are kept -/
theorem reset_keeps_drops (d : Det F) :
    d.reset.floored = d.floored.reset ∧ d.reset.diffs = d.diffs.reset ∧ d.reset.backgroundFrames = 0 ∧
    d.reset.firstDiff = d.firstDiff ∧ d.reset.affected = d.affected ∧ d.reset.tempThresh = d.tempThresh ∧
    d.reset.bg = d.bg ∧ d.reset.bgSeeded = d.bgSeeded ∧ d.reset.weight = d.weight :=
  ⟨rfl, rfl, rfl, rfl, rfl, rfl, rfl, rfl, rfl⟩

theorem ring_reset_eq {α : Type} (r : Ring α) (n : Nat) (b : α) (h : r.size = n) :
    r.reset = { Ring.new n b with slots := r.slots } := by
  obtain ⟨sz, cu, sl, fu, ol⟩ := r
  simp only at h
  subst h
  rfl

/-- **fixed threshold: the detector after a marker against a fresh one.**  Every field is that of
`Det.init`, except the slot contents of the two rings (stale frames, out of reach of `Oldest()`) and the two flags,
which are those the history before the marker left (`flagsAfter`). -/
theorem pipe_reset_vs_init (c : PipeCfg) (hdyn : c.det.dynamic = false) (gs : List GOp) (g : GOp)
    (h : g.op = .item .clear) :
    let d := (Pipe.gop c (runG F c gs) g).det
    let i := Det.init F c.det
    d.tempThresh = i.tempThresh ∧ d.bg = i.bg ∧ d.bgSeeded = i.bgSeeded ∧ d.weight = i.weight ∧
    d.backgroundFrames = i.backgroundFrames ∧
    d.floored = { i.floored with slots := d.floored.slots } ∧ d.diffs = { i.diffs with slots := d.diffs.slots } ∧
    (d.firstDiff, d.affected) = flagsAfter (devsG c gs) ∧ Fresh d := by
  intro d i
  have hd : d = (runG F c gs).det.reset := pipe_det_after_clear c gs g h
  have hw : Wf c.det (runG F c gs).det := by rw [runG_det]; exact wf_after _ _ _ (wf_init F c.det)
  have hf : Fixed c.det (runG F c gs).det := by rw [runG_det]; exact fixed_after _ hdyn _ _ (fixed_init F c.det)
  have hfl := after_flags c.det (devsG c gs) (Det.init F c.det)
  rw [← runG_det] at hfl
  rw [hd]
  refine ⟨hf.t, hf.bg, hf.seeded, hf.w, rfl, ?_, ?_, hfl, fresh_reset c.det _ hw⟩
  · exact ring_reset_eq _ _ _ hw.fs
  · exact ring_reset_eq _ _ _ hw.ds

/-! ## (2) after the marker, nothing before it matters (fixed threshold) -/

theorem devsG_clear (c : PipeCfg) (g : GOp) (h : g.op = .item .clear) : devsG c [g] = [.reset] := by
  rw [devsG_cons, devOf_clear c g h]; rfl

/-- the detector after `gs ++ [clr]` -/
theorem runG_clear_det (c : PipeCfg) (gs : List GOp) (clr : GOp) (h : clr.op = .item .clear) :
    (runG F c (gs ++ [clr])).det = (Det.after c.det (Det.init F c.det) (devsG c gs)).reset := by
  rw [runG_snoc, pipe_det_after_clear c gs clr h, runG_det]

/-- from equal detector outputs after the marker to equal processor events on the tail -/
theorem tail_events_of_outputs (c : PipeCfg) (gs₁ gs₂ : List GOp) (clr clr' : GOp) (tail : List GOp)
    (h1 : clr.op = .item .clear) (h2 : clr'.op = .item .clear)
    (h : Det.outputs c.det (Det.after c.det (Det.init F c.det) (devsG c gs₁)) (.reset :: devsG c tail) =
         Det.outputs c.det (Det.after c.det (Det.init F c.det) (devsG c gs₂)) (.reset :: devsG c tail)) :
    evsFrom c (runG F c (gs₁ ++ [clr])) tail = evsFrom c (runG F c (gs₂ ++ [clr'])) tail := by
  apply evsFrom_congr
  rw [runG_clear_det c gs₁ clr h1, runG_clear_det c gs₂ clr' h2]
  exact h

/-- the processor events of a history with a marker: those of the prefix, the `Reset` event, those of the tail -/
theorem evsG_marker (c : PipeCfg) (gs : List GOp) (clr : GOp) (tail : List GOp) (h : clr.op = .item .clear) :
    evsG F c (gs ++ [clr] ++ tail) =
      evsG F c gs ++ [.reset (gfaults clr)] ++ evsFrom c (runG F c (gs ++ [clr])) tail := by
  rw [evsG_append, evsG_snoc]
  congr 2
  rcases evOf_cases c (runG F c gs) clr with ⟨h', _⟩ | ⟨_, h'⟩ | ⟨_, _, _, h', _⟩ | ⟨_, _, _, h', _⟩
  · rw [h] at h'; cases h'
  · rw [h']
  · rw [h] at h'; cases h'
  · rw [h] at h'; cases h'

theorem evsG_tail (c : PipeCfg) (gs : List GOp) (clr : GOp) (tail : List GOp) :
    (evsG F c (gs ++ [clr] ++ tail)).drop (gs.length + 1) = evsFrom c (runG F c (gs ++ [clr])) tail := by
  have := evsG_drop (F := F) c (gs ++ [clr]) tail
  simpa using this

/-- **C09 at pipeline level: reset independence** (fixed threshold; derived from `C09.c09c_reset_independence`).
Two socket histories that continue identically after a `clear` marker — `gs₁ ++ [clr] ++ tail` and
`gs₂ ++ [clr'] ++ tail`, same items and same gates in `tail` — and whose prefixes induce detector events of the same
shape (same sequence of accepted frames with the same FFC flags and markers; arbitrary pixel contents, arbitrary
rejected frames, test requests and gates) induce the SAME processor events on the tail: every accepted frame of
the tail gets the same verdict in both runs. -/
theorem pipe_c09_reset_independence (c : PipeCfg) (hdyn : c.det.dynamic = false) (hcount : 1 ≤ c.det.countThresh)
    (gs₁ gs₂ : List GOp) (clr clr' : GOp) (tail : List GOp)
    (hs : C09.SameShape (devsG c gs₁) (devsG c gs₂))
    (h1 : clr.op = .item .clear) (h2 : clr'.op = .item .clear) :
    (evsG F c (gs₁ ++ [clr] ++ tail)).drop (gs₁.length + 1) =
    (evsG F c (gs₂ ++ [clr'] ++ tail)).drop (gs₂.length + 1) := by
  rw [evsG_tail, evsG_tail]
  exact tail_events_of_outputs c gs₁ gs₂ clr clr' tail h1 h2
    (C09.c09c_reset_independence F c.det hdyn hcount (devsG c gs₁) (devsG c gs₂) (devsG c tail) hs)

/-- … in particular the verdict sequences of the tail coincide, and they are the detector model's outputs after a
`Reset` -/
theorem pipe_c09_reset_independence_verdicts (c : PipeCfg) (hdyn : c.det.dynamic = false)
    (hcount : 1 ≤ c.det.countThresh) (gs₁ gs₂ : List GOp) (clr clr' : GOp) (tail : List GOp)
    (hs : C09.SameShape (devsG c gs₁) (devsG c gs₂))
    (h1 : clr.op = .item .clear) (h2 : clr'.op = .item .clear) :
    verdictsOf ((evsG F c (gs₁ ++ [clr] ++ tail)).drop (gs₁.length + 1)) =
    verdictsOf ((evsG F c (gs₂ ++ [clr'] ++ tail)).drop (gs₂.length + 1)) ∧
    verdictsOf ((evsG F c (gs₁ ++ [clr] ++ tail)).drop (gs₁.length + 1)) =
      Det.outputs c.det (runG F c gs₁).det.reset (devsG c tail) := by
  refine ⟨congrArg verdictsOf (pipe_c09_reset_independence c hdyn hcount gs₁ gs₂ clr clr' tail hs h1 h2), ?_⟩
  rw [evsG_tail, verdictsOf_evsFrom, runG_snoc, pipe_det_after_clear c gs₁ clr h1]

/-- **reset independence for arbitrary prefixes** (fixed threshold): the two prefixes may be ANY histories (different
numbers of frames, markers, FFC periods) as long as they leave the detector's two flags `(firstDiff, affected)`
equal — the only content-independent state `Reset` keeps. -/
theorem pipe_c09_reset_independence_flags (c : PipeCfg) (hdyn : c.det.dynamic = false)
    (gs₁ gs₂ : List GOp) (clr clr' : GOp) (tail : List GOp)
    (hfl : flagsAfter (devsG c gs₁) = flagsAfter (devsG c gs₂))
    (h1 : clr.op = .item .clear) (h2 : clr'.op = .item .clear) :
    (evsG F c (gs₁ ++ [clr] ++ tail)).drop (gs₁.length + 1) =
    (evsG F c (gs₂ ++ [clr'] ++ tail)).drop (gs₂.length + 1) := by
  rw [evsG_tail, evsG_tail]
  exact tail_events_of_outputs c gs₁ gs₂ clr clr' tail h1 h2
    (outputs_after_reset c.det hdyn (devsG c gs₁) (devsG c gs₂) (devsG c tail) hfl)

/-- the flags are what the pipeline's detector holds -/
theorem pipe_flags (c : PipeCfg) (gs : List GOp) :
    ((runG F c gs).det.firstDiff, (runG F c gs).det.affected) = flagsAfter (devsG c gs) := by
  have hfl := after_flags c.det (devsG c gs) (Det.init F c.det)
  rw [← runG_det] at hfl
  exact hfl

/-- prefixes of the same shape leave the same flags (so `pipe_c09_reset_independence` is a special case) -/
theorem sameShape_flagsAfter (c : PipeCfg) (gs₁ gs₂ : List GOp) (hs : C09.SameShape (devsG c gs₁) (devsG c gs₂)) :
    flagsAfter (devsG c gs₁) = flagsAfter (devsG c gs₂) :=
  sameShape_flags _ _ _ hs.rec'

/-- no accepted frame of the history is FFC-affected -/
def NoFFC (c : PipeCfg) (gs : List GOp) : Prop := ∀ e ∈ devsG c gs, e.ffc = false

/-- the history contains a socket frame the parser accepts -/
def HasFrame (c : PipeCfg) (gs : List GOp) : Prop := ∃ f b, DEv.frame f b ∈ devsG c gs

theorem flags_noffc_stay : ∀ (evs : List DEv), (∀ e ∈ evs, e.ffc = false) →
    evs.foldl flagStep (true, false) = (true, false) := by
  intro evs
  induction evs with
  | nil => intro _; rfl
  | cons e es ih =>
    intro h
    have he := h e (List.mem_cons_self ..)
    have hes := ih (fun x hx => h x (List.mem_cons_of_mem _ hx))
    cases e with
    | frame f b =>
      have : b = false := he
      subst this
      exact hes
    | reset => exact hes

theorem flags_noffc : ∀ (evs : List DEv) (b : Bool), (∀ e ∈ evs, e.ffc = false) → (∃ f a, DEv.frame f a ∈ evs) →
    evs.foldl flagStep (b, false) = (true, false) := by
  intro evs
  induction evs with
  | nil => intro b _ ⟨_, _, h⟩; cases h
  | cons e es ih =>
    intro b h hex
    have he := h e (List.mem_cons_self ..)
    have hrest : ∀ x ∈ es, x.ffc = false := fun x hx => h x (List.mem_cons_of_mem _ hx)
    cases e with
    | frame f a =>
      have : a = false := he
      subst this
      have : flagStep (b, false) (.frame f false) = (true, false) := by simp [flagStep]
      rw [List.foldl_cons, this]
      exact flags_noffc_stay es hrest
    | reset =>
      obtain ⟨f, a, hm⟩ := hex
      rcases List.mem_cons.mp hm with hm | hm
      · cases hm
      · exact ih b hrest ⟨f, a, hm⟩

/-- **reset independence, no FFC before the marker**: if no accepted frame of either prefix is FFC-affected and
each prefix contains an accepted frame, the tails' processor events coincide — whatever else the prefixes are. -/
theorem pipe_c09_reset_independence_noffc (c : PipeCfg) (hdyn : c.det.dynamic = false)
    (gs₁ gs₂ : List GOp) (clr clr' : GOp) (tail : List GOp)
    (hn₁ : NoFFC c gs₁) (hn₂ : NoFFC c gs₂) (hf₁ : HasFrame c gs₁) (hf₂ : HasFrame c gs₂)
    (h1 : clr.op = .item .clear) (h2 : clr'.op = .item .clear) :
    (evsG F c (gs₁ ++ [clr] ++ tail)).drop (gs₁.length + 1) =
    (evsG F c (gs₂ ++ [clr'] ++ tail)).drop (gs₂.length + 1) := by
  apply pipe_c09_reset_independence_flags (F := F) c hdyn gs₁ gs₂ clr clr' tail ?_ h1 h2
  unfold flagsAfter
  rw [flags_noffc _ false hn₁ hf₁, flags_noffc _ false hn₂ hf₂]

/-! ### the motion files started after the marker -/

/-- the processor is not recording after a marker -/
theorem pipe_not_recording_after_clear (c : PipeCfg) (gs : List GOp) (clr : GOp) (h : clr.op = .item .clear) :
    (runG F c (gs ++ [clr])).proc.isRec = false := by
  rw [runG_snoc, gop_proc]
  rcases evOf_cases c (runG F c gs) clr with ⟨h', _⟩ | ⟨_, h'⟩ | ⟨_, _, _, h', _⟩ | ⟨_, _, _, h', _⟩
  · rw [h] at h'; cases h'
  · rw [h']; exact stopRecording_isRec _ _
  · rw [h] at h'; cases h'
  · rw [h] at h'; cases h'

/-- the situation right after the two markers: the continuation induces the same processor events, and the two
processor states agree on everything that decides where recordings start and stop -/
theorem tail_setup (c : PipeCfg) (hK : 0 < c.proc.K) (hthr : c.throttle = false)
    (hdyn : c.det.dynamic = false) (gs₁ gs₂ : List GOp) (clr clr' : GOp) (tail : List GOp)
    (hfl : flagsAfter (devsG c gs₁) = flagsAfter (devsG c gs₂))
    (h1 : clr.op = .item .clear) (h2 : clr'.op = .item .clear)
    (htg : 1 ≤ c.det.countThresh ∨ c.proc.trig ≤ 1 ∨
      (runG F c (gs₁ ++ [clr])).proc.triggered = (runG F c (gs₂ ++ [clr'])).proc.triggered) :
    evsFrom c (runG F c (gs₁ ++ [clr])) tail = evsFrom c (runG F c (gs₂ ++ [clr'])) tail ∧
    Good c.proc (runG F c (gs₁ ++ [clr])).proc ∧ Good c.proc (runG F c (gs₂ ++ [clr'])).proc ∧
    CoreQ c.proc (runG F c (gs₁ ++ [clr])).proc (runG F c (gs₂ ++ [clr'])).proc
      (evsFrom c (runG F c (gs₁ ++ [clr])) tail) := by
  have hev : evsFrom c (runG F c (gs₁ ++ [clr])) tail = evsFrom c (runG F c (gs₂ ++ [clr'])) tail :=
    tail_events_of_outputs c gs₁ gs₂ clr clr' tail h1 h2
      (outputs_after_reset c.det hdyn (devsG c gs₁) (devsG c gs₂) (devsG c tail) hfl)
  obtain ⟨g₁, i₁⟩ := pie_good c hK _ _ (pie_runG (F := F) c hK hthr (gs₁ ++ [clr]))
  obtain ⟨g₂, i₂⟩ := pie_good c hK _ _ (pie_runG (F := F) c hK hthr (gs₂ ++ [clr']))
  have r₁ := pipe_not_recording_after_clear (F := F) c gs₁ clr h1
  have r₂ := pipe_not_recording_after_clear (F := F) c gs₂ clr' h2
  refine ⟨hev, g₁, g₂, r₁.trans r₂.symm, (i₁ r₁).1.trans (i₂ r₂).1.symm, (i₁ r₁).2.trans (i₂ r₂).2.symm, ?_⟩
  rcases htg with h | h | h
  · refine Or.inr (Or.inr ?_)
    unfold FirstQuiet
    rw [verdictsOf_evsFrom, runG_clear_det c gs₁ clr h1]
    have hw : Wf c.det (Det.after c.det (Det.init F c.det) (devsG c gs₁)) := wf_after _ _ _ (wf_init F c.det)
    exact fresh_head c.det h _ _ (wf_reset _ _ hw) (fresh_reset _ _ hw)
  · exact Or.inl h
  · exact Or.inr (Or.inl h)

/-- **C09 at pipeline level, files** (throttle off, fixed threshold).  For two histories that continue identically
after a marker and whose prefixes leave the same detector flags: the steps of the tail at which a motion file is
started are the same in both runs, and so is the number of motion files started during the tail.  The last
hypothesis concerns the processor's run of motion frames (`triggered`), which its `Reset` keeps when no recording is
open: it is irrelevant when the first frame after a marker can never be motion (`countThresh ≥ 1`: that frame is
compared with itself) or when one motion frame triggers (`trig ≤ 1`); otherwise the two counters must agree. -/
theorem pipe_c09_file_starts (c : PipeCfg) (hK : 0 < c.proc.K) (hthr : c.throttle = false)
    (hdyn : c.det.dynamic = false) (gs₁ gs₂ : List GOp) (clr clr' : GOp) (tail : List GOp)
    (hfl : flagsAfter (devsG c gs₁) = flagsAfter (devsG c gs₂))
    (h1 : clr.op = .item .clear) (h2 : clr'.op = .item .clear)
    (htg : 1 ≤ c.det.countThresh ∨ c.proc.trig ≤ 1 ∨
      (runG F c (gs₁ ++ [clr])).proc.triggered = (runG F c (gs₂ ++ [clr'])).proc.triggered) :
    startFlags c (runG F c (gs₁ ++ [clr])) tail = startFlags c (runG F c (gs₂ ++ [clr'])) tail ∧
    motionStarts (runG F c (gs₁ ++ [clr] ++ tail)) - motionStarts (runG F c (gs₁ ++ [clr])) =
      motionStarts (runG F c (gs₂ ++ [clr'] ++ tail)) - motionStarts (runG F c (gs₂ ++ [clr'])) := by
  obtain ⟨hev, g₁, g₂, hcore⟩ := tail_setup (F := F) c hK hthr hdyn gs₁ gs₂ clr clr' tail hfl h1 h2 htg
  have hP₁ := pie_runG (F := F) c hK hthr (gs₁ ++ [clr])
  have hP₂ := pie_runG (F := F) c hK hthr (gs₂ ++ [clr'])
  have hflags : startFlags c (runG F c (gs₁ ++ [clr])) tail = startFlags c (runG F c (gs₂ ++ [clr'])) tail := by
    rw [startFlags_eq c hK hthr tail _ _ hP₁, startFlags_eq c hK hthr tail _ _ hP₂, ← hev]
    exact proc_sim c.proc _ _ _ g₁ g₂ (evsFrom_pipeEv c tail _) hcore
  refine ⟨hflags, ?_⟩
  rw [PipeC15.runG_append c (gs₁ ++ [clr]) tail, PipeC15.runG_append c (gs₂ ++ [clr']) tail,
    motionStarts_fold c hK hthr tail _ _ hP₁, motionStarts_fold c hK hthr tail _ _ hP₂, hflags]
  omega

/-- **… and the recordings have the same extent from the trigger frame on**: run on the (common) processor events
of the tail, the two processors — whose states after the marker differ in the frame counter, the frame ring and
possibly `triggered` — make their successful `StartRecording` calls and their `StopRecording` calls on the motion
sink at the same events.  (What may differ is the number of PRE-trigger frames written at a start: the processor's
`Reset` does not empty its frame ring, see the example below.) -/
theorem pipe_c09_recording_extents (c : PipeCfg) (hK : 0 < c.proc.K) (hthr : c.throttle = false)
    (hdyn : c.det.dynamic = false) (gs₁ gs₂ : List GOp) (clr clr' : GOp) (tail : List GOp)
    (hfl : flagsAfter (devsG c gs₁) = flagsAfter (devsG c gs₂))
    (h1 : clr.op = .item .clear) (h2 : clr'.op = .item .clear)
    (htg : 1 ≤ c.det.countThresh ∨ c.proc.trig ≤ 1 ∨
      (runG F c (gs₁ ++ [clr])).proc.triggered = (runG F c (gs₂ ++ [clr'])).proc.triggered) :
    let E := (evsG F c (gs₁ ++ [clr] ++ tail)).drop (gs₁.length + 1)
    E = (evsG F c (gs₂ ++ [clr'] ++ tail)).drop (gs₂.length + 1) ∧
    (PState.run c.proc (runG F c (gs₁ ++ [clr])).proc E).map hasStartOk =
      (PState.run c.proc (runG F c (gs₂ ++ [clr'])).proc E).map hasStartOk ∧
    (PState.run c.proc (runG F c (gs₁ ++ [clr])).proc E).map hasStop =
      (PState.run c.proc (runG F c (gs₂ ++ [clr'])).proc E).map hasStop := by
  intro E
  obtain ⟨hev, g₁, g₂, hcore⟩ := tail_setup (F := F) c hK hthr hdyn gs₁ gs₂ clr clr' tail hfl h1 h2 htg
  have hE : E = evsFrom c (runG F c (gs₁ ++ [clr])) tail := evsG_tail c gs₁ clr tail
  rw [evsG_tail, hE]
  exact ⟨hev, proc_sim c.proc _ _ _ g₁ g₂ (evsFrom_pipeEv c tail _) hcore,
    proc_sim_stop c.proc _ _ _ g₁ g₂ (evsFrom_pipeEv c tail _) hcore⟩

/-! ## (3) no motion, and no motion file, in or right after an FFC period -/

/-- the detector's `affected` flag inside the pipeline: the FFC flag of the last accepted frame — `clear` markers,
rejected frames and test requests leave it alone -/
theorem pipe_affected_nil (c : PipeCfg) : (runG F c []).det.affected = false := rfl

theorem pipe_affected_snoc (c : PipeCfg) (gs : List GOp) (g : GOp) :
    (runG F c (gs ++ [g])).det.affected =
      (match devOf c g with
       | some (.frame _ ffc) => ffc
       | _ => (runG F c gs).det.affected) := by
  rw [runG_snoc, gop_det]
  cases h : devOf c g with
  | none => rfl
  | some e =>
    cases e with
    | frame f ffc => exact C09.c09a_affected F c.det _ f ffc
    | reset => rfl

/-- **C09 at pipeline level: no motion in or right after an FFC period.**  For every history `gs` and every next
step `g` that is a socket frame the parser accepts: if the frame is FFC-affected according to its own telemetry
(`Det.affectedBy`: time on − time of the last FFC < `ffcPeriod`), or the last accepted frame before it was (no
matter what lies in between: markers, rejected frames, test requests), the detector's verdict is `false`. -/
theorem pipe_c09_no_motion_in_ffc (c : PipeCfg) (gs : List GOp) (pix : Frame) (tel : Parse.Telemetry)
    (h : Det.affectedBy c.det ((tel.timeOnMs : Int) * 1000000) ((tel.lastFFCMs : Int) * 1000000) = true ∨
      (runG F c gs).det.affected = true) :
    verdict c (runG F c gs) pix tel = false :=
  C09.c09a_step F c.det (runG F c gs).det pix _ h

/-- … hence the processor event of that step carries "no motion" -/
theorem pipe_c09_quiet_event (c : PipeCfg) (gs : List GOp) (g : GOp) (bytes : List Nat) (pix : Frame)
    (tel : Parse.Telemetry) (hop : g.op = .item (.frame bytes)) (hparse : parseItem c bytes = .ok pix tel)
    (h : Det.affectedBy c.det ((tel.timeOnMs : Int) * 1000000) ((tel.lastFFCMs : Int) * 1000000) = true ∨
      (runG F c gs).det.affected = true) :
    Pipe.evOf c (runG F c gs) g = .frame false (gfaults g) := by
  rw [evOf_ok c _ g bytes pix tel hop hparse, pipe_c09_no_motion_in_ffc c gs pix tel h]

/-- … and no motion file starts at that step (throttle off) -/
theorem pipe_c09_no_start_in_ffc (c : PipeCfg) (hK : 0 < c.proc.K) (hthr : c.throttle = false) (gs : List GOp)
    (g : GOp) (bytes : List Nat) (pix : Frame) (tel : Parse.Telemetry)
    (hop : g.op = .item (.frame bytes)) (hparse : parseItem c bytes = .ok pix tel)
    (h : Det.affectedBy c.det ((tel.timeOnMs : Int) * 1000000) ((tel.lastFFCMs : Int) * 1000000) = true ∨
      (runG F c gs).det.affected = true) :
    motionStarts (Pipe.gop c (runG F c gs) g) = motionStarts (runG F c gs) := by
  have hv := pipe_c09_no_motion_in_ffc (F := F) c gs pix tel h
  have hi := pipe_start_iff (F := F) c hK hthr gs g bytes pix tel hop hparse
  have hm := pipe_at_most_one_start (F := F) c hK hthr gs g
  simp only at hi
  have hno : ¬ motionStarts (Pipe.gop c (runG F c gs) g) > motionStarts (runG F c gs) := by
    intro hgt
    have := (hi.mp hgt).2.1
    rw [show (Det.detect c.det (runG F c gs).det pix
      (Det.affectedBy c.det ((tel.timeOnMs : Int) * 1000000) ((tel.lastFFCMs : Int) * 1000000))).2 =
      verdict c (runG F c gs) pix tel from rfl, hv] at this
    cases this
  omega

/-- the same with the throttle on (`minLenFrames ≥ 1`) -/
theorem pipe_c09_no_start_in_ffc_thr (c : PipeCfg) (hK : 0 < c.proc.K) (hthr : c.throttle = true)
    (hM : 0 < c.minLenFrames) (gs : List GOp)
    (g : GOp) (bytes : List Nat) (pix : Frame) (tel : Parse.Telemetry)
    (hop : g.op = .item (.frame bytes)) (hparse : parseItem c bytes = .ok pix tel)
    (h : Det.affectedBy c.det ((tel.timeOnMs : Int) * 1000000) ((tel.lastFFCMs : Int) * 1000000) = true ∨
      (runG F c gs).det.affected = true) :
    motionStarts (Pipe.gop c (runG F c gs) g) = motionStarts (runG F c gs) := by
  have hv := pipe_c09_no_motion_in_ffc (F := F) c gs pix tel h
  have hmono := PipeC15.motionStarts_mono (F := F) c gs [g]
  rw [runG_snoc] at hmono
  have hno : ¬ motionStarts (Pipe.gop c (runG F c gs) g) > motionStarts (runG F c gs) := by
    intro hgt
    obtain ⟨_, _, bytes', pix', tel', hop', hparse', _, hv', _⟩ := pipe_thr_start_only_if c hK hthr hM gs g hgt
    rw [hop] at hop'
    injection hop' with hit
    injection hit with hb
    subst hb
    rw [hparse] at hparse'
    injection hparse' with hp ht
    subst hp; subst ht
    rw [hv] at hv'
    cases hv'
  omega

/-- **the whole history at once**: position `i` of the verdict sequence of a history is `false` wherever the mask
`C09.mustBeQuiet` of the induced detector events says so (the frame is FFC-affected or the previous accepted frame
was) -/
theorem pipe_c09_quiet_run (c : PipeCfg) (gs : List GOp) (i : Nat)
    (h : (C09.mustBeQuiet false (devsG c gs))[i]? = some true) :
    (verdictsOf (evsG F c gs))[i]? = some false := by
  rw [verdictsOf_evsG]
  exact C09.c09a_run F c.det (devsG c gs) i h

end pipeline

/-! ## (4) non-vacuity -/

section examples
open TR.PipeLemmas.Tiny

/-- a socket item with both gates open -/
private def it (i : Socket.Item) : GOp := ⟨true, true, .item i⟩
/-- the camera-reset marker -/
private def clr : GOp := ⟨true, true, .item .clear⟩

/-- two prefixes on the tiny pipeline of `Props.Pipeline` (fixed threshold, `trig = 1`, one-diff detection: every
change of scene is motion): a hot object enters at the end of the first, the second stays cold -/
private def preHot : List GOp := [it cold, it cold, it hot]
private def preCold : List GOp := [it cold, it cold, it cold]
/-- the common continuation -/
private def tl : List GOp := [it cold, it hot, it hot, it cold]

example : c0.det.dynamic = false ∧ 1 ≤ c0.det.countThresh ∧ 0 < c0.proc.K ∧ c0.throttle = false := by decide

/-- the prefixes' verdicts differ … -/
example : verdictsOf (evsG F0 c0 preHot) = [false, false, true] ∧
    verdictsOf (evsG F0 c0 preCold) = [false, false, false] := by decide

/-- … and WITHOUT a marker so do the verdicts of the continuation (its first frame is compared with the last frame
of the prefix) -/
example : verdictsOf ((evsG F0 c0 (preHot ++ tl)).drop 3) = [true, true, false, true] ∧
    verdictsOf ((evsG F0 c0 (preCold ++ tl)).drop 3) = [false, true, false, true] := by decide

/-- the hypotheses of `pipe_c09_reset_independence` / `…_flags` / `…_noffc` hold for the two prefixes -/
example : flagsAfter (devsG c0 preHot) = flagsAfter (devsG c0 preCold) := by decide
example : C09.SameShape (devsG c0 preHot) (devsG c0 preCold) := .frame (.frame (.frame .nil))

/-- with the marker the continuation gets the same verdicts in both runs (as `pipe_c09_reset_independence` says),
not constantly `false`; its first frame is compared with itself -/
example : verdictsOf ((evsG F0 c0 (preHot ++ [clr] ++ tl)).drop 4) = [false, true, false, true] ∧
    verdictsOf ((evsG F0 c0 (preCold ++ [clr] ++ tl)).drop 4) = [false, true, false, true] := by decide

/-- the theorem itself on these histories: the induced processor events of the continuation are equal -/
example : (evsG F0 c0 (preHot ++ [clr] ++ tl)).drop (preHot.length + 1) =
    (evsG F0 c0 (preCold ++ [clr] ++ tl)).drop (preCold.length + 1) :=
  pipe_c09_reset_independence c0 rfl (by decide) preHot preCold clr clr tl (.frame (.frame (.frame .nil))) rfl rfl

set_option maxRecDepth 20000 in
/-- files (`pipe_c09_file_starts`): a recording is open at the marker in the first run only (it is closed by the
marker), yet in both runs motion files start at steps 1 and 3 of the continuation.  The file lists show what the
theorem does NOT say: the pre-trigger frames of the first file after the marker differ — in the second run it begins
with frame 2, recorded BEFORE the camera restart (the processor's `Reset` does not empty its frame ring). -/
example :
    (runG F0 c0 (preHot ++ [clr])).proc.isRec = false ∧ (runG F0 c0 preHot).proc.isRec = true ∧
    (runG F0 c0 preCold).proc.isRec = false ∧
    startFlags c0 (runG F0 c0 (preHot ++ [clr])) tl = [false, true, false, true] ∧
    startFlags c0 (runG F0 c0 (preCold ++ [clr])) tl = [false, true, false, true] ∧
    motionFiles (runG F0 c0 (preHot ++ [clr] ++ tl)) = [[0, 1, 2], [3, 4, 5], [6]] ∧
    motionFiles (runG F0 c0 (preCold ++ [clr] ++ tl)) = [[2, 3, 4, 5], [6]] := by decide

/-! ### FFC: a Lepton variant of the tiny pipeline -/

/-- Lepton frames (640 telemetry bytes, big-endian pixels), FFC period 10 s -/
private def cL : PipeCfg := { c0 with lepton := true, det := { c0.det with ffcPeriod := 10000000000 } }

/-- a Lepton frame: time on `256·t` ms, last FFC at `256·l` ms, all four pixels `v` -/
private def lep (t l v : Nat) : GOp :=
  it (.frame (List.replicate 2 0 ++ [t, 0] ++ List.replicate 56 0 ++ [l, 0] ++ List.replicate 578 0 ++
    [0, v, 0, v, 0, v, 0, v]))

/-- time on 51.2 s throughout; `lep 200 0 v`: last FFC 51.2 s ago (not affected), `lep 200 180 v`: 5.12 s ago
(affected).  A hot object comes and goes during the FFC period (steps 2–4) and afterwards (steps 6–8). -/
private def hF : List GOp :=
  [lep 200 0 20, lep 200 0 20, lep 200 180 90, lep 200 180 20, lep 200 180 90, lep 200 0 20, lep 200 0 90,
   lep 200 0 20, lep 200 0 90]
/-- the same pixels with no FFC -/
private def hN : List GOp :=
  [lep 200 0 20, lep 200 0 20, lep 200 0 90, lep 200 0 20, lep 200 0 90, lep 200 0 20, lep 200 0 90,
   lep 200 0 20, lep 200 0 90]

set_option maxRecDepth 100000 in
/-- the FFC flags the pipeline computes from the telemetry, and the mask of `pipe_c09_quiet_run` -/
example : (devsG cL hF).map DEv.ffc = [false, false, true, true, true, false, false, false, false] ∧
    C09.mustBeQuiet false (devsG cL hF) = [false, false, true, true, true, true, false, false, false] := by
  decide

set_option maxRecDepth 100000 in
/-- without the FFC the hot object is motion at step 2 and a motion file starts there; with it, steps 2–5 (the
period and the frame after it) are quiet, and no file starts until step 6 -/
example :
    verdictsOf (evsG F0 cL hN) = [false, false, true, true, true, true, true, true, true] ∧
    verdictsOf (evsG F0 cL hF) = [false, false, false, false, false, false, true, true, true] ∧
    (List.range 10).map (fun i => motionStarts (runG F0 cL (hN.take i))) = [0, 0, 0, 1, 1, 1, 1, 1, 1, 1] ∧
    (List.range 10).map (fun i => motionStarts (runG F0 cL (hF.take i))) = [0, 0, 0, 0, 0, 0, 0, 1, 1, 1] := by
  decide

/-! ### reset independence needs the hypothesis on the flags -/

set_option maxRecDepth 100000 in
/-- **`pipe_c09_reset_independence` WITHOUT a hypothesis on the prefixes is FALSE** (fixed threshold).  Two
one-frame prefixes with the same pixels; in the first the frame is FFC-affected.  `Reset` keeps the detector's
`affected` flag, so after the marker the first run treats the continuation as "right after an FFC period": its
first two frames are quiet, the hot object at step 1 is not reported and no file starts there — in the second run
it is, and one does. -/
theorem reset_independence_needs_flags :
    let pA : List GOp := [lep 200 180 20]
    let pB : List GOp := [lep 200 0 20]
    let t : List GOp := [lep 200 0 20, lep 200 0 90, lep 200 0 20]
    cL.det.dynamic = false ∧ 1 ≤ cL.det.countThresh ∧
    flagsAfter (devsG cL pA) = (true, true) ∧ flagsAfter (devsG cL pB) = (true, false) ∧
    verdictsOf ((evsG F0 cL (pA ++ [clr] ++ t)).drop 2) = [false, false, true] ∧
    verdictsOf ((evsG F0 cL (pB ++ [clr] ++ t)).drop 2) = [false, true, true] ∧
    startFlags cL (runG F0 cL (pA ++ [clr])) t = [false, false, true] ∧
    startFlags cL (runG F0 cL (pB ++ [clr])) t = [false, true, false] := by decide

/-! ### `pipe_c09_file_starts` needs its last hypothesis -/

set_option maxRecDepth 20000 in
/-- with `countThresh = 0` (every compared frame is motion, also the first one after a marker) and `trig = 2`, the
run of motion frames the processor's `Reset` keeps decides where the first file after the marker starts: equal
detector flags, equal verdicts on the continuation, different start steps -/
example :
    let cT : PipeCfg := { c0 with det := { c0.det with countThresh := 0 }, proc := { c0.proc with trig := 2 } }
    let qA : List GOp := [it cold, it cold]
    let qB : List GOp := [it cold]
    let t : List GOp := [it cold, it cold, it cold]
    flagsAfter (devsG cT qA) = flagsAfter (devsG cT qB) ∧
    (runG F0 cT (qA ++ [clr])).proc.triggered = 1 ∧ (runG F0 cT (qB ++ [clr])).proc.triggered = 0 ∧
    verdictsOf ((evsG F0 cT (qA ++ [clr] ++ t)).drop 3) = [true, true, true] ∧
    verdictsOf ((evsG F0 cT (qB ++ [clr] ++ t)).drop 2) = [true, true, true] ∧
    startFlags cT (runG F0 cT (qA ++ [clr])) t = [true, false, false] ∧
    startFlags cT (runG F0 cT (qB ++ [clr])) t = [false, true, false] := by decide

/-! ## (5) the dynamic threshold: finding F7 at pipeline level (NEGATIVE example, known finding) -/

/-- the tiny pipeline with the dynamic threshold (`previewFrames = 1`, initial threshold 0; with the integer
stand-ins of `Tiny.F0` the "mean" of a background is the sum of its four pixels) -/
private def cD : PipeCfg := { c0 with det := { c0.det with dynamic := true, previewFrames := 1, tempThresh := 0 } }

/-- a Boson frame, all four pixels `lo + 256·hi` -/
private def bo (lo hi : Nat) : GOp := it (.frame [lo, hi, lo, hi, lo, hi, lo, hi])

set_option maxRecDepth 20000 in
/-- **F7 (KNOWN FINDING), end to end: with the dynamic threshold `pipe_c09_reset_independence` is FALSE.**
The counterexample of `Props.C09` pushed through `Pipe.item`: two prefixes of the same shape (two accepted
frames each, pixels 1001, 1000 resp. 2, 1), the marker, the same continuation (pixels 10, then 500).  The second
prefix frame lowers the background, so the threshold is recomputed from the prefix: 4000 in run A, 4 in run B.
`Reset` zeroes `backgroundFrames` but keeps that threshold; the two frames after the marker are background frames
1 (≤ `previewFrames`) and 2 (background unchanged), so the threshold of the scene BEFORE the camera restart
decides: run A floors 10 and 500 to 4000 (no motion, no file), run B reports motion and starts a motion file —
whose header carries the stale threshold. -/
theorem f7_pipeline_dynamic_reset_dependence :
    let pA : List GOp := [bo 233 3, bo 232 3]
    let pB : List GOp := [bo 2 0, bo 1 0]
    let t : List GOp := [bo 10 0, bo 244 1]
    cD.det.dynamic = true ∧ flagsAfter (devsG cD pA) = flagsAfter (devsG cD pB) ∧
    (runG F0 cD (pA ++ [clr])).det.tempThresh = 4000 ∧ (runG F0 cD (pB ++ [clr])).det.tempThresh = 4 ∧
    verdictsOf ((evsG F0 cD (pA ++ [clr] ++ t)).drop 3) = [false, false] ∧
    verdictsOf ((evsG F0 cD (pB ++ [clr] ++ t)).drop 3) = [false, true] ∧
    startFlags cD (runG F0 cD (pA ++ [clr])) t = [false, false] ∧
    startFlags cD (runG F0 cD (pB ++ [clr])) t = [false, true] ∧
    (runG F0 cD (pB ++ [clr] ++ t)).files.map (fun f => (f.frames, f.thresh)) = [([1, 2, 3], 4)] := by decide

set_option maxRecDepth 20000 in
/-- the same histories with the fixed threshold (as `pipe_c09_reset_independence` says): equal verdicts -/
example :
    let cFx : PipeCfg := { c0 with det := { c0.det with tempThresh := 0 } }
    let pA : List GOp := [bo 233 3, bo 232 3]
    let pB : List GOp := [bo 2 0, bo 1 0]
    let t : List GOp := [bo 10 0, bo 244 1]
    verdictsOf ((evsG F0 cFx (pA ++ [clr] ++ t)).drop 3) = [false, true] ∧
    verdictsOf ((evsG F0 cFx (pB ++ [clr] ++ t)).drop 3) = [false, true] := by decide

end examples

end TR.PipeC09
