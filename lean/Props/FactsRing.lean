import Generated.Facts
/-! # Source facts — C01 C02 C03 C12 C13 C17 C11: the capacity K of the pre-trigger ring (re-extracted by tools/gofacts at every check; one small module per concern so
that a rewrite of one function re-opens only the obligations of the properties that depend on it) -/
namespace TR.FactsProc
open Facts

/-- C01/C02: the pre-trigger ring holds preview-secs*fps + trigger-frames frames (the `K` of the model) -/
theorem ring_capacity_expr :
    ringSizeExpr = "NewFrameLoop(recorderConf.PreviewSecs*c.FPS()+motionConf.TriggerFrames, c)" := by decide

end TR.FactsProc
